#!/bin/sh
# usage: tools/seed_regression_par.sh [lanes]   (default 4)
# Runs every stored seeded change against the quick check of its property, in parallel lanes.
# Each lane works on its own clone of /repo and its own copy of the harness (path dependency
# and target directory rewritten), so /repo and /verif/mc are not touched.  Writes
# /verif/seeded/RESULTS.md.
lanes=${1:-4}
base=/dev/shm/seedreg
rm -rf $base; mkdir -p $base
seeds=$(ls /verif/seeded | grep -E '^C[0-9][0-9]')
i=0
for s in $seeds; do
    echo $s >> $base/list.$(( i % lanes ))
    i=$(( i + 1 ))
done
for k in $(seq 0 $(( lanes - 1 ))); do
(
    L=$base/lane$k
    mkdir -p $L
    git clone -q /repo $L/repo
    cp -r /verif/mc $L/mc
    sed -i "s|path = \"/repo\"|path = \"$L/repo\"|" $L/mc/Cargo.toml
    sed -i "s|target-dir = \"/verif/target\"|target-dir = \"$L/target\"|" $L/mc/.cargo/config.toml
    for s in $(cat $base/list.$k); do
        d=/verif/seeded/$s
        [ -f $d/patch.diff ] || continue
        id=$(echo $s | cut -c1-3)
        if ! git -C $L/repo apply "$d/patch.diff" 2>/dev/null; then echo "| $s | $id | patch does not apply | | |" >> $base/out.$k; continue; fi
        start=$(date +%s)
        ( cd $L/mc && CARGO_NET_OFFLINE=true cargo build --release --offline >/dev/null 2>&1 && VFSMC_EVIDENCE_DIR=$L/evidence $L/target/release/vfs-mc check $id --tier quick ) > $L/log 2>&1
        code=$?
        git -C $L/repo checkout -q -- .
        sigs=$(grep "signature:" $L/log | head -3 | sed 's/^ *signature: //; s/|/\\|/g' | tr '\n' ';')
        echo "| $s | $id | $code | $(( $(date +%s) - start )) | $sigs |" >> $base/out.$k
    done
    echo done > $base/done.$k
) &
done
wait
{
  echo "# Seeded changes against the quick checks"
  echo
  echo "Written by tools/seed_regression_par.sh ($(date -u +%FT%TZ), /repo $(git -C /repo rev-parse --short HEAD), /verif $(git -C /verif rev-parse --short HEAD))."
  echo "exit 1 = the check reported the change; exit 0 = not reported; exit 2 = the harness stopped with a machinery error instead of a verdict.  Not expected to be reported (DESIGN.md section 13): C10b, C15g, C09k (outside the stated domain); C02d (neutralised by fix 446db43); C04h, C12e, C12h, C14i, C14j (async port only: reported by C15); C16h (sequential defect: reported by C04/C14)."
  echo
  echo "| seed | check | exit | seconds | first signatures |"
  echo "|---|---|---|---|---|"
  cat $base/out.* | sort
} > /verif/seeded/RESULTS.md
rm -rf $base
