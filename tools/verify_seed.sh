#!/bin/sh
# usage: tools/verify_seed.sh <worktree> <id> [name]
# Confirms in the scratch worktree that (1) both repository test commands pass with the change,
# (2) the demonstration fails with the change, (3) passes without it; then stores the seed
# under /verif/seeded/<name>/ with the commands run.
wt="$1"; id="$2"; name="${3:-$2}"
export CARGO_NET_OFFLINE=true CARGO_TARGET_DIR="$wt/target"
cd "$wt" || exit 2
out=/verif/seeded/$name
mkdir -p "$out"
git diff -- src Cargo.toml > "$out/patch.diff"
[ -s "$out/patch.diff" ] || { echo "no change in $wt"; exit 2; }
cp seeded/demo.rs "$out/demo.rs" 2>/dev/null || cp tests/seeded_demo.rs "$out/demo.rs"
cp seeded/meta.json "$out/agent_meta.json" 2>/dev/null
mkdir -p /tmp/seed_aside && mv tests/seeded_demo.rs /tmp/seed_aside/$name.rs && rm -f my.patch
s1=$(cargo test --workspace --no-fail-fast --offline 2>&1 | grep -E "^test result" | tr '\n' ' ')
s2=$(cargo test --offline --features async-vfs,embedded-fs 2>&1 | grep -E "^test result" | tr '\n' ' ')
mv /tmp/seed_aside/$name.rs tests/seeded_demo.rs
d1=$(cargo test --offline --features async-vfs,embedded-fs,verif-hooks --test seeded_demo 2>&1 | grep -E "^test result" | tr '\n' ' ')
git apply -R "$out/patch.diff"
d2=$(cargo test --offline --features async-vfs,embedded-fs,verif-hooks --test seeded_demo 2>&1 | grep -E "^test result" | tr '\n' ' ')
git apply "$out/patch.diff"
python3 - "$out" "$id" "$s1" "$s2" "$d1" "$d2" <<'PY'
import json,sys,os
out,id,s1,s2,d1,d2=sys.argv[1:7]
agent={}
try: agent=json.load(open(os.path.join(out,'agent_meta.json')))
except Exception: pass
ok = ('FAILED' not in s1 and 'ok.' in s1 and 'FAILED' not in s2 and 'ok.' in s2 and 'FAILED' in d1 and 'FAILED' not in d2 and 'ok.' in d2)
meta={"property":id,"breaks":agent.get("summary"),"needs":agent.get("needs"),
 "verified_here":{"suite_default_with_change":s1,"suite_all_features_with_change":s2,"demo_with_change":d1,"demo_without_change":d2,"confirmed":ok},
 "commands":["cargo test --workspace --no-fail-fast --offline","cargo test --offline --features async-vfs,embedded-fs","cargo test --offline --features async-vfs,embedded-fs,verif-hooks --test seeded_demo (with and without the change)"],
 "written_by":"independent sub-agent that saw only the property text and a scratch worktree"}
json.dump(meta,open(os.path.join(out,'meta.json'),'w'),indent=1)
os.path.exists(os.path.join(out,'agent_meta.json')) and os.remove(os.path.join(out,'agent_meta.json'))
print(id, "CONFIRMED" if ok else "NOT CONFIRMED", "|", s1, "|", s2, "|", d1, "|", d2)
PY
