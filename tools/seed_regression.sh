#!/bin/sh
# usage: tools/seed_regression.sh [seed names...]   (default: every directory in /verif/seeded)
# For each stored seeded change: applies it to /repo, runs the quick check of the property it
# targets, undoes it, and records exit code and first signatures in /verif/seeded/RESULTS.md.
# /repo must be clean; it is clean again when the script ends.
cd /verif || exit 2
if [ -n "$(git -C /repo status --porcelain --untracked-files=no)" ]; then echo "MACHINERY: /repo has uncommitted changes"; exit 2; fi
seeds="$*"; [ -z "$seeds" ] && seeds=$(ls seeded | grep -E '^C[0-9][0-9]')
out=seeded/RESULTS.md.new
{
  echo "# Seeded changes against the quick checks"
  echo
  echo "Written by tools/seed_regression.sh ($(date -u +%FT%TZ), /repo $(git -C /repo rev-parse --short HEAD), /verif $(git rev-parse --short HEAD))."
  echo "exit 1 = the check reported the change; exit 0 = missed."
  echo
  echo "| seed | check | exit | seconds | first signatures |"
  echo "|---|---|---|---|---|"
} > $out
for s in $seeds; do
    d=/verif/seeded/$s
    [ -f $d/patch.diff ] || continue
    id=$(echo $s | cut -c1-3)
    git -C /repo apply "$d/patch.diff" || { echo "| $s | $id | patch does not apply | | |" >> $out; continue; }
    start=$(date +%s)
    VFSMC_EVIDENCE_DIR=/dev/shm/seed-evidence ./check "$id" quick > /dev/shm/seed_$s.log 2>&1
    code=$?
    git -C /repo apply -R "$d/patch.diff"
    sigs=$(grep "signature:" /dev/shm/seed_$s.log | head -3 | sed 's/^ *signature: //; s/|/\\|/g' | tr '\n' ';' )
    echo "| $s | $id | $code | $(( $(date +%s) - start )) | $sigs |" >> $out
    echo "$s exit=$code"
    rm -f /dev/shm/seed_$s.log
done
rm -rf /dev/shm/seed-evidence
git -C /repo status --porcelain --untracked-files=no
mv $out seeded/RESULTS.md
