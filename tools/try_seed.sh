#!/bin/sh
# usage: tools/try_seed.sh <dir containing patch.diff> <property id>...
# Applies a seeded property-breaking change to /repo, runs the named quick checks, undoes the change.
dir="$1"; shift
cd /verif || exit 2
if [ -n "$(git -C /repo status --porcelain --untracked-files=no)" ]; then echo "MACHINERY: /repo has uncommitted changes"; exit 2; fi
git -C /repo apply "$dir/patch.diff" || { echo "MACHINERY: patch does not apply"; exit 2; }
# undo the change however the script ends (a closed output pipe included)
trap 'git -C /repo apply -R "$dir/patch.diff" 2>/dev/null || git -C /repo checkout -- .; git -C /repo status --porcelain --untracked-files=no' EXIT
trap 'exit 129' HUP INT PIPE TERM
for c in "$@"; do
    start=$(date +%s)
    VFSMC_EVIDENCE_DIR=/dev/shm/seed-evidence ./check "$c" quick > "/tmp/seed_$c.log" 2>&1
    code=$?
    echo "== $c exit=$code ($(( $(date +%s) - start ))s)"
    grep -E "^VIOLATION|signature:" "/tmp/seed_$c.log" | head -6
done
