#!/bin/sh
# usage: tools/process_round.sh <worktree prefix, e.g. /tmp/w5_> <suffix, e.g. e> <ids...>
# For each id: confirm the agent's change in its worktree (verify_seed.sh), store it as
# /verif/seeded/<id><suffix>, run the quick check of that property against it (try_seed.sh,
# 15 min cap), remove the worktree.  One line per seed in /tmp/round_<suffix>.log.
pre="$1"; suf="$2"; shift 2
cd /verif || exit 2
for id in "$@"; do
    wt="$pre$id"
    [ -d "$wt" ] || { echo "$id no-worktree" >> /tmp/round_$suf.log; continue; }
    v=$(tools/verify_seed.sh "$wt" "$id" "$id$suf" 2>&1 | tail -1 | cut -c1-20)
    r=$(timeout 900 tools/try_seed.sh /verif/seeded/$id$suf $id 2>&1 | head -4 | tr '\n' ' ' | cut -c1-260)
    [ -n "$(git -C /repo status --porcelain --untracked-files=no)" ] && git -C /repo checkout -- .
    echo "$id$suf | $v | $r" >> /tmp/round_$suf.log
    git -C /repo worktree remove --force "$wt"
done
git -C /repo worktree prune
echo DONE >> /tmp/round_$suf.log
