#!/usr/bin/env python3
"""Writes /verif/MANIFEST.json.  One place for the per-property texts."""
import json, subprocess
ids = [json.loads(l)['id'] for l in open('/verif/properties.jsonl')]

CHECKS = {
 'C01': dict(engine='seq', cat='model_checking', tech='explicit-state BFS to fixpoint over the real filesystem, reference-model comparison on every transition',
   text='Every call of the TYPED alphabet is applied to every state reachable over a finite path universe on every backend configuration (BFS to fixpoint, rebuild by replay); outcome, required error kinds and the complete observable snapshot are compared with an abstract-tree model after every transition. Histories of unbounded length are covered wherever the fixpoint is reached. On a dedicated universe a refused call that changes nothing observable opens a state of its own (one per history), so every call is also made after every refused call.',
   note='alphabet bound (<=14 paths, <=3 components, listed names and contents), stack height <=3; overlay layers are filesystem roots or directories inside other filesystems (Sub); state key = raw snapshots of the base filesystems', ref='3/C01'),
 'C02': dict(engine='seq(pair)', cat='model_checking', tech='product explicit-state BFS: MemoryFS and PhysicalFS in lock-step, each the other\'s oracle',
   text='The same histories are replayed on a fresh MemoryFS and a fresh PhysicalFS; BFS over the joint raw state; after every call the two must agree on Ok/Err, on the not-found and already-exists classes and on the full observable tree and bytes. Write/seek/flush scripts (depth 4 on memory, 3 on the physical backend) and read/seek scripts of depth 3 on handles of both backends are compared with a common cursor model; one pair explores the states after every refused call (residue mode); every public constructor of the in-memory backend (new, default, VfsPath::from) behaves like new() on all programs of <= 2 calls.',
   note='host filesystem tmpfs; names accepted by it; alphabet bound', ref='3/C02'),
 'C03': dict(engine='seq', cat='model_checking', tech='explicit-state BFS to fixpoint, well-formedness invariant on every reached state',
   text='Every call (no type restriction) on every path in every reachable state of every configuration incl. overlays with populated lower layers; the invariant (root is a directory, every entry has a directory parent and is reached by walk_dir, no non-empty directory becomes a file) is evaluated on the top-level namespace and on every base filesystem after every transition. Write handles kept open across other calls (open / write+flush / write+drop as letters of the alphabet, the handle being part of the state) are explored on Mem, Phys, Alt and Overlay; on a dedicated universe with a chain of three levels every call is also made after every refused call (residue mode).',
   note='alphabet bound; removal of the root itself excluded (as the property says)', ref='3/C03'),
 'C05': dict(engine='seq', cat='model_checking', tech='explicit-state BFS to fixpoint, cross-observer consistency invariant on every reached state',
   text='In every reachable state every path of the universe (plus everything listings reveal) is observed with exists/metadata/is_file/is_dir/read_dir/open+read and walk_dir from every directory; the observers must tell one consistent story (model-free). Includes the states reached with a write handle kept open across other calls and, on a dedicated universe, the states after every refused call (residue mode).',
   note='alphabet bound incl. prefix-sharing, dotted, dots-only, multi-byte and backslash-carrying names', ref='3/C05'),
 'C07': dict(engine='seq(pair)', cat='model_checking', tech='product explicit-state BFS of altroot and translated twin + exhaustive hostile-join sweep with recorded underlying calls',
   text='Alt(Recorder(X),P) and a twin X\' are explored in lock-step (op(q) vs op(P/q)); outcomes, sub-tree views and raw snapshots must agree; every path argument reaching X lies below P and the snapshot outside P (and outside the PhysicalFS root, at OS level) is unchanged; every join argument of <=3-4 hostile segments x 18 call kinds is swept. Two pairs (memory and physical) explore the states after every refused call (residue mode). Three pairs also run the timestamp setters and compare which entries carry the written instant. Write handles obtained through the altroot are run against handles on P/q of a twin, every script of 3 steps (write, write_all, write!, seek, flush), comparing step results and the bytes the underlying filesystem shows after every step.',
   note='symlinks out of scope; alphabet bound; P of depth 0..3', ref='3/C07'),
 'C08': dict(engine='seq', cat='model_checking', tech='explicit-state BFS over overlays with recording wrappers on every layer',
   text='All calls incl. explicit observer calls in every reachable state of overlays with populated lower layers: the recorder log of lower layers never shows a mutating method, observers issue no mutating call to any layer, deep snapshots (type, bytes, created, modified) of lower layers are unchanged.',
   note='alphabet bound; 2-4 layers, also physical and memory layers that are directories of ONE shared filesystem object; `accessed` of lower files excluded (the lower filesystem updates it on open)', ref='3/C08'),
 'C09': dict(engine='seq', cat='model_checking', tech='explicit-state BFS to fixpoint from every type-consistent initial layering, reference model initialised with the union',
   text='For every type-consistent assignment of initial layer contents over a small universe the overlay is explored to fixpoint with the TYPED alphabet and compared with the abstract-tree model initialised with the union of the layers.',
   note='alphabet bound; 1-4 layers, chains of up to 4 levels in lower layers; type-inconsistent layerings are outside the stated domain', ref='3/C09'),
 'C10': dict(engine='seq', cat='model_checking', tech='explicit-state BFS to fixpoint (remove / re-create cycles) + marker invisibility probes',
   text='The C09 exploration run to fixpoint covers arbitrarily many remove / re-create cycles with type changes; model equality after every step shows removed entries stay absent and re-created ones start fresh; in every state the namespace is probed for .whiteout / *_wo entries.',
   note='alphabet bound; reserved names never generated, only probed', ref='3/C10'),
 'C12': dict(engine='seq', cat='model_checking', tech='explicit-state BFS; every Err of every call and observer checked against the allowed path set and kind classes',
   text='Every error produced by any call or observer in the C01/C09 explorations must carry the call\'s path, its destination or an ancestor of them (a descendant only for calls that walk below their path: walk_dir, remove_dir_all, copy_dir, move_dir) in the caller\'s namespace (never the placeholder, never an underlying path) and the kinds the property fixes; read_to_string of files with invalid UTF-8 (in the middle, truncated at the end) on every stack; the invalid-path classification of every join string up to the bound; kinds and paths of every error of every operation on every path of the embedded fixture; states after every refused call on a dedicated universe (residue mode).',
   note='altroot prefixes and scratch paths are disjoint from universe names, so a leaked underlying path is recognisable', ref='3/C12'),
}


CHECKS.update({
 'C04': dict(engine='handle+seq', cat='model_checking', tech='exhaustive write/seek/flush session scripts against Cursor<Vec<u8>> + explicit-state BFS of session sequences + boundary lengths x buffer sizes',
   text='(a) every script of d write/seek/flush steps on create and append handles of every backend (overlay copy-up included), a fresh reader right after the open, after every flush and after drop, against std::io::Cursor; (b) BFS to fixpoint of all create/append/copy/move/remove session sequences over two paths against the byte model; (c) boundary lengths (0..65537, and sessions on files of 1 MiB + 5 and 3 MiB with the published bytes compared right after every open) x read buffer sizes and read strategies (read_to_end, read_exact, BufReader) through write, copy_file, move_file, append and overwrite; after a copy, later sessions on the original must not reach the copy and vice versa.',
   note='script depth d (quick 4 / 3 on physical, thorough 5); fixed non-UTF-8 byte pattern; a zero-length write past the end is not compared (Cursor<Vec> and POSIX differ, the contract is silent)', ref='3/C04'),
 'C06': dict(engine='path', cat='model_checking', tech='exhaustive enumeration of all argument strings up to a length bound + BFS over path values against a lexical-resolution reference',
   text='Every string over {/ . a b e-acute} up to length L joined onto 6 bases for VfsPath and AsyncVfsPath, associativity for all pairs of short strings, BFS over path values with join/parent/root; equality matrix over 17 ways of producing three paths on two filesystem instances; result, canonical form, parent/filename/extension/is_root/equality compared with a reference resolver.',
   note='L = 6 (quick) / 8 (thorough); longer strings and other characters are not covered (the random part of the property is not done: sampling)', ref='3/C06'),
 'C11': dict(engine='seq+xfer', cat='model_checking', tech='explicit-state BFS with the composite calls in the alphabet + exhaustive source-tree x destination x backend-pair enumeration against a two-tree model',
   text='(a) create_dir_all / remove_dir_all / copy_* / move_* applied in every reachable state of every backend (model comparison); (b) every source tree over {a,a/a,a/b,b} with 4 contents x 6 destination classes x 4 calls x ordered pairs of backend instances (two filesystems, two instances of one backend, the same instance) against a two-tree model: exact copy, source untouched / gone, count, refusal of existing destinations without side effects; for failing calls the model leaves open (missing destination parent, parent is a file) outcome and remains of the source are compared across the instance pairings.',
   note='alphabet bound; destinations outside the source subtree', ref='3/C11'),
 'C13': dict(engine='all', cat='model_checking', tech='catch_unwind around every call of exhaustive explorations: unrestricted BFS incl. root removal, handle scripts, reader+writer interplay with removals, hostile on-disk contents, EmbeddedFS, join strings',
   text='No panic in: BFS with the unrestricted alphabet including removal of the root and the states after it and type-inconsistent overlay layerings; read/write/seek scripts at every offset; a read and a write handle on one file opened, used, dropped and re-opened in every order while the file or its parent is removed or replaced (sync and async); every call on / next to / below hostile on-disk entries; every operation on every path of the embedded fixtures; all join strings up to the bound. OverlayFS::new(&[]) is asserted to panic.',
   note='copy_dir/move_dir into the own subtree excluded (documented); the async port has its own sweep: unrestricted product BFS, reader scripts incl. offsets next to u64::MAX / i64::MIN, poll plans, all under catch_unwind', ref='3/C13'),
 'C14': dict(engine='handle', cat='model_checking', tech='exhaustive read/seek and write/seek/flush scripts on handles of every backend, call by call against std::io::Cursor',
   text='Every script of d steps over 18 reader steps (reads of 0/1/2/5 bytes, read_to_end, read_exact, seeks from Start/Current/End before the start, inside, at and past the end) on files of 0, 1 and 4 bytes from Mem, Phys, Alt, Overlay (upper, lower-only, and middle layer shadowing a bottom copy) and Embedded, and every script over 15 writer steps (write, write_all, write!, seeks, flush) on create and append handles, compared call by call (return values, bytes, positions, published bytes) with std::io::Cursor; append scripts that flushed and end at the original length get an epilogue that writes the open-time bytes back before the drop.',
   note='d = 4 (quick) / 5 (thorough, memory based); seeking on append handles compared on memory based stacks only', ref='3/C14'),
 'C15': dict(engine='async', cat='model_checking', tech='product explicit-state BFS sync vs async + exhaustive enumeration of poll schedules (<=2 injected Pendings) with an own executor',
   text='Sync and async stacks of the same configuration are explored in lock-step (outcome classes, error kinds, observable trees); async read handles run all read/seek scripts against Cursor; for walks and the composites built on them every plan with 1 and 2 injected Pendings at the await points the wrapper owns (every AsyncFileSystem method entry, every read_dir stream item, at every level of the stack) must give the plan-free result, which must equal the sync twin; two lock-step pairs explore the states after every refused call (residue mode); reader+writer scripts with removals end in the same tree in both worlds (memory based stacks); an async file of 300 001 bytes is read with read_to_end and buffers of 65 537..400 000 bytes and texts with 2-/3-/4-byte characters straddling the 8 KiB and 16 KiB marks with read_to_string; symlinks of four kinds x 13 calls x 2 targets give the same outcome classes on PhysicalFS and AsyncPhysicalFS.',
   note='AsyncPhysicalFS in lock-step only; <=2 (thorough: 3 on the largest trees) injected Pendings; alphabet bound', ref='3/C15'),
 'C16': dict(engine='sched', cat='model_checking', tech='stateless exhaustive schedule enumeration (cooperative scheduler at lock-acquisition yield points, visited-state pruning) + brute-force linearizability check against sequential runs of the real code',
   text='For every small program (2 threads x 1 call/session over the full alphabet on overlapping paths x 4 initial states, all (2,1)-call programs of mutators on two paths, (change, then look) against a look, a write session (incl. one of 50 000 bytes and one that publishes twice) against a thread that first reads or stats the file and then changes it, and the same at the FileSystem trait level; thorough: 3 threads, 2 calls per thread) all interleavings at MemoryFS lock granularity are executed on the real code; per-thread results and final raw state of every schedule must equal those of some program-order-respecting sequential execution on a fresh MemoryFS; no panic, no deadlock (watchdog), and the final tree of every schedule is well-formed.',
   note='scheduling points = the verif-hooks yield points before each lock acquisition (exact for a single-lock safe-Rust structure); no preemption bound in quick; error kinds are compared in the FileSystem-trait-level program class (one critical section per call), not at the path level (a VfsPath call is several filesystem calls)', ref='3/C16'),
 'C17': dict(engine='sched', cat='model_checking', tech='stateless exhaustive schedule enumeration of k concurrent create_dir_all calls on all path multisets',
   text='k = 2,3 (thorough 4) threads each calling create_dir_all on every multiset of 7 paths sharing prefixes of every length, on MemoryFS, AltrootFS, OverlayFS (empty and with the shared prefix only in the lower layer), three-level stackings (Alt(Ov), Ov[Alt,Mem], Alt(Alt)) at lock granularity and on PhysicalFS at create_dir call granularity: also with the shared prefix removed through the filesystem before the race starts (overlay deletion markers in place): every call returns Ok and every prefix is a directory under every interleaving.',
   note='PhysicalFS: mkdir(2) atomic, nobody else touches the scratch directory; classes with a preemption bound are labelled in the evidence', ref='3/C17'),
 'C18': dict(engine='embed', cat='model_checking', tech='exhaustive enumeration of every public operation on every path of a derived finite path set of an immutable (single-state) filesystem, PhysicalFS on the same folder as oracle',
   text='EmbeddedFS is immutable, so one state per fixture and depth-1 closure is all histories: every observer, read_to_string, walk_dir, reader scripts and every mutator (incl. transfers into / out of / inside it) on every path of the path set (files, implied directories, root, absent siblings, prefixes/extensions of names, paths below files, and variants of every name with the separator replaced by a backslash, a space or a colon) of two fixtures, compared with PhysicalFS on the same folder; mutators are refused (not-supported when their ordinary preconditions hold) and change nothing; the observers are run on every path twice and both passes must agree.',
   note='two fixture folders; release build (rust-embed embeds at compile time)', ref='3/C18'),
 'C19': dict(engine='time', cat='model_checking', tech='exhaustive enumeration of boundary time values x setter orders x entry kinds x configurations x follow-up operations against a field-wise model',
   text='8 boundary time values (epoch, sub-second, pre-epoch, far future) x every single setter and all 6 orders of the three setters x file/directory/symlink-to-file x Mem, Phys, Alt, Overlay over memory and over physical layers (entry in the upper layer, lower-only, and in upper and lower layers at once) x follow-up {nothing, read, append, overwrite, copy, setters while an append handle is open, an append handle written before the setters and dropped after them, a read before the setters, refused calls on the entry after the setters}: an accepted setter sets exactly its field and nothing else, a refused one changes nothing, append on MemoryFS preserves created, adapters report the timestamps of the serving entry.',
   note='PhysicalFS on tmpfs; metadata read immediately before/after each setter', ref='3/C19'),
 'C20': dict(engine='fault', cat='fault_enumeration', tech='for every reachable state x every call: fail each single underlying call position k = 1..n (thorough: all pairs) via a fault-injecting FileSystem wrapper',
   text='For every state of a BFS over the fault-free transitions and every call incl. observers, walk_dir and read_to_string: one fault-free run counts the n calls made into the wrapped filesystems of the stack (trait methods and every read/write/seek/flush on returned handles), then the call is re-run from the same state once per position k with exactly that call failing; the result must be Err (or an Err item), or Ok with the complete fault-free effect and answer; never a panic, never a mutating call on a lower layer.',
   note='faults at the public FileSystem trait boundary of every filesystem of the stack and in every read/write/seek/flush on the handles they return; <=2 simultaneous faults; overlays of up to 4 layers', ref='3/C20'),
})

def check(i, c):
    return {
        'property_id': i,
        'quick_cmd': f'./check {i} quick',
        'thorough_cmd': f'./check {i} thorough',
        'evidence_file': f'/verif/evidence/{i}.json',
        'replay_cmd_template': './check replay {path}',
        'engine': c['engine'],
        'level_claimed': {'category': c['cat'], 'text': c['text'], 'design_ref': c['ref']},
        'level_note': c['note'],
        'technique': c['tech'],
    }

try:
    commits = subprocess.check_output(['git', '-C', '/repo', 'log', '--format=%H %s'], text=True).splitlines()
    hook_commits = [l.split()[0] for l in commits if l.split(' ', 1)[1].startswith('verif-hooks')]
except Exception:
    hook_commits = []

m = {
 'version': 1,
 'setup_cmd': 'cd /verif/mc && CARGO_NET_OFFLINE=true cargo build --release --offline',
 'hooks': {
   'guard': 'cargo feature verif-hooks (crate vfs)',
   'enable': 'the harness crate /verif/mc depends on vfs by path (/repo) with features ["verif-hooks","async-vfs","embedded-fs"]; ./check rebuilds it from the working tree on every call',
   'baseline_off_cmd': 'cd /repo && cargo test --workspace --no-fail-fast --offline',
   'source_commits': hook_commits,
   'add_only': True,
 },
 'engines': [
   {'name': 'vfs-mc', 'path': '/verif/mc', 'serves_properties': sorted(CHECKS), 'kind_free_text': 'Rust harness: explicit-state BFS over the real filesystems (rebuild by replay), product exploration, cooperative scheduler, poll-plan and fault-position enumeration'},
 ],
 'checks': [check(i, CHECKS[i]) for i in ids if i in CHECKS],
 'not_applicable': [{'property_id': i, 'reason': 'check under construction (DESIGN.md section 3)'} for i in ids if i not in CHECKS],
 'notes': 'exit 0 = held on everything explored (KNOWN-FINDING lines for recorded defects, see known_findings.json); exit 1 + VIOLATION line; exit 2 = machinery failure.',
}
json.dump(m, open('/verif/MANIFEST.json', 'w'), indent=1)
print('checks:', len(m['checks']), 'not_applicable:', len(m['not_applicable']))
