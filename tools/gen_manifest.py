#!/usr/bin/env python3
"""Writes /verif/MANIFEST.json.  One place for the per-property texts."""
import json, subprocess
ids = [json.loads(l)['id'] for l in open('/verif/properties.jsonl')]

CHECKS = {
 'C01': dict(engine='seq', cat='model_checking', tech='explicit-state BFS to fixpoint over the real filesystem, reference-model comparison on every transition',
   text='Every call of the TYPED alphabet is applied to every state reachable over a finite path universe on every backend configuration (BFS to fixpoint, rebuild by replay); outcome, required error kinds and the complete observable snapshot are compared with an abstract-tree model after every transition. Histories of unbounded length are covered wherever the fixpoint is reached.',
   note='alphabet bound (<=14 paths, <=3 components, listed names and contents), stack height <=3; state key = raw snapshots of the base filesystems', ref='3/C01'),
 'C02': dict(engine='seq(pair)', cat='model_checking', tech='product explicit-state BFS: MemoryFS and PhysicalFS in lock-step, each the other\'s oracle',
   text='The same histories are replayed on a fresh MemoryFS and a fresh PhysicalFS; BFS over the joint raw state; after every call the two must agree on Ok/Err, on the not-found and already-exists classes and on the full observable tree and bytes.',
   note='host filesystem tmpfs; names accepted by it; alphabet bound', ref='3/C02'),
 'C03': dict(engine='seq', cat='model_checking', tech='explicit-state BFS to fixpoint, well-formedness invariant on every reached state',
   text='Every call (no type restriction) on every path in every reachable state of every configuration incl. overlays with populated lower layers; the invariant (root is a directory, every entry has a directory parent and is reached by walk_dir, no non-empty directory becomes a file) is evaluated on the top-level namespace and on every base filesystem after every transition.',
   note='alphabet bound; removal of the root itself excluded (as the property says)', ref='3/C03'),
 'C05': dict(engine='seq', cat='model_checking', tech='explicit-state BFS to fixpoint, cross-observer consistency invariant on every reached state',
   text='In every reachable state every path of the universe (plus everything listings reveal) is observed with exists/metadata/is_file/is_dir/read_dir/open+read and walk_dir from every directory; the observers must tell one consistent story (model-free).',
   note='alphabet bound incl. prefix-sharing, dotted and multi-byte names', ref='3/C05'),
 'C07': dict(engine='seq(pair)', cat='model_checking', tech='product explicit-state BFS of altroot and translated twin + exhaustive hostile-join sweep with recorded underlying calls',
   text='Alt(Recorder(X),P) and a twin X\' are explored in lock-step (op(q) vs op(P/q)); outcomes, sub-tree views and raw snapshots must agree; every path argument reaching X lies below P and the snapshot outside P (and outside the PhysicalFS root, at OS level) is unchanged; every join argument of <=3-4 hostile segments x 18 call kinds is swept.',
   note='symlinks out of scope; alphabet bound; P of depth 0..3', ref='3/C07'),
 'C08': dict(engine='seq', cat='model_checking', tech='explicit-state BFS over overlays with recording wrappers on every layer',
   text='All calls incl. explicit observer calls in every reachable state of overlays with populated lower layers: the recorder log of lower layers never shows a mutating method, observers issue no mutating call to any layer, deep snapshots (type, bytes, created, modified) of lower layers are unchanged.',
   note='alphabet bound; 2-4 layers; `accessed` of lower files excluded (the lower filesystem updates it on open)', ref='3/C08'),
 'C09': dict(engine='seq', cat='model_checking', tech='explicit-state BFS to fixpoint from every type-consistent initial layering, reference model initialised with the union',
   text='For every type-consistent assignment of initial layer contents over a small universe the overlay is explored to fixpoint with the TYPED alphabet and compared with the abstract-tree model initialised with the union of the layers.',
   note='alphabet bound; 1-4 layers; type-inconsistent layerings are outside the stated domain', ref='3/C09'),
 'C10': dict(engine='seq', cat='model_checking', tech='explicit-state BFS to fixpoint (remove / re-create cycles) + marker invisibility probes',
   text='The C09 exploration run to fixpoint covers arbitrarily many remove / re-create cycles with type changes; model equality after every step shows removed entries stay absent and re-created ones start fresh; in every state the namespace is probed for .whiteout / *_wo entries.',
   note='alphabet bound; reserved names never generated, only probed', ref='3/C10'),
 'C12': dict(engine='seq', cat='model_checking', tech='explicit-state BFS; every Err of every call and observer checked against the allowed path set and kind classes',
   text='Every error produced by any call or observer in the C01/C09 explorations must carry the call\'s path, its destination or an ancestor/descendant of them in the caller\'s namespace (never the placeholder, never an underlying path) and the kinds the property fixes.',
   note='altroot prefixes and scratch paths are disjoint from universe names, so a leaked underlying path is recognisable', ref='3/C12'),
}

def check(i, c):
    return {
        'property_id': i,
        'quick_cmd': f'./check {i} quick',
        'thorough_cmd': f'./check {i} thorough',
        'evidence_file': f'/verif/evidence/{i}.json',
        'replay_cmd_template': './check replay {path}',
        'engine': c['engine'],
        'level_claimed': {'category': c['cat'], 'text': c['text'], 'design_ref': c['ref']},
        'level_note': c['note'],
        'technique': c['tech'],
    }

try:
    commits = subprocess.check_output(['git', '-C', '/repo', 'log', '--format=%H %s'], text=True).splitlines()
    hook_commits = [l.split()[0] for l in commits if l.split(' ', 1)[1].startswith('verif-hooks')]
except Exception:
    hook_commits = []

m = {
 'version': 1,
 'setup_cmd': 'cd /verif/mc && CARGO_NET_OFFLINE=true cargo build --release --offline',
 'hooks': {
   'guard': 'cargo feature verif-hooks (crate vfs)',
   'enable': 'the harness crate /verif/mc depends on vfs by path (/repo) with features ["verif-hooks","async-vfs","embedded-fs"]; ./check rebuilds it from the working tree on every call',
   'baseline_off_cmd': 'cd /repo && cargo test --workspace --no-fail-fast --offline',
   'source_commits': hook_commits,
   'add_only': True,
 },
 'engines': [
   {'name': 'vfs-mc', 'path': '/verif/mc', 'serves_properties': sorted(CHECKS), 'kind_free_text': 'Rust harness: explicit-state BFS over the real filesystems (rebuild by replay), product exploration, cooperative scheduler, poll-plan and fault-position enumeration'},
 ],
 'checks': [check(i, CHECKS[i]) for i in ids if i in CHECKS],
 'not_applicable': [{'property_id': i, 'reason': 'check under construction (DESIGN.md section 3); will be claimed once its engine is committed'} for i in ids if i not in CHECKS],
 'notes': 'exit 0 = held on everything explored (KNOWN-FINDING lines for recorded defects, see known_findings.json); exit 1 + VIOLATION line; exit 2 = machinery failure.',
}
json.dump(m, open('/verif/MANIFEST.json', 'w'), indent=1)
print('checks:', len(m['checks']), 'not_applicable:', len(m['not_applicable']))
