//! C16 (MemoryFS is linearizable) and C17 (concurrent create_dir_all calls all succeed).

use super::*;
use crate::api::*;
use crate::sched::*;
use crate::snapshot::snapshot;
use rayon::prelude::*;
use std::collections::{BTreeMap, BTreeSet};
use std::hash::{Hash, Hasher};
use std::sync::Mutex;
use vfs::VfsPath;

// ---------------------------------------------------------------------------------------
// C16

#[derive(Clone, PartialEq, Eq, Hash, PartialOrd, Ord)]
pub enum Call {
    CreateDir(&'static str),
    /// create_file, handle kept by the thread
    OpenCreate(&'static str),
    /// append_file, handle kept by the thread
    OpenAppend(&'static str),
    /// write to the kept handle and flush it (publishes), keeping it
    WriteFlush(&'static [u8]),
    /// write to the kept handle and drop it
    WriteClose(&'static [u8]),
    /// set_creation_time / set_modification_time / set_access_time (0 / 1 / 2) to a fixed instant
    SetTime(&'static str, u8),
    RemoveFile(&'static str),
    RemoveDir(&'static str),
    Exists(&'static str),
    Metadata(&'static str),
    ReadDir(&'static str),
    ReadAll(&'static str),
}

/// Result of one call as a caller sees it, error kind included (a kind that no sequential run
/// produces is a stale answer, e.g. DirectoryExists where only a file ever existed).
#[derive(Clone, Debug, PartialEq, Eq, Hash, PartialOrd, Ord)]
pub enum Res {
    Unit,
    Bool(bool),
    /// type, length, which of created / modified / accessed equal the fixed instant of SetTime
    Meta(u8, u64, [bool; 3]),
    List(Vec<String>),
    Bytes(Vec<u8>),
    Err(Kind),
    NoHandle,
}

/// Path-level calls (`VfsPath::create_dir` = parent lookup + filesystem call, …) are not atomic
/// and nobody promises that: a call that loses a race may fail in any of its steps, so their
/// error kinds are not compared (tried: the unchanged tree then "fails" in thousands of ways).
static BIG_WRITE: [u8; 50_000] = [b'q'; 50_000];

impl std::fmt::Debug for Call {
    fn fmt(&self, f: &mut std::fmt::Formatter<'_>) -> std::fmt::Result {
        match self {
            Call::WriteClose(b) if b.len() > 16 => write!(f, "WriteClose(<{} bytes>)", b.len()),
            Call::WriteFlush(b) => write!(f, "WriteFlush({:?})", b),
            Call::WriteClose(b) => write!(f, "WriteClose({:?})", b),
            other => write!(f, "{}", call_kind(other)),
        }
    }
}

fn fixed_instant() -> std::time::SystemTime {
    std::time::UNIX_EPOCH + std::time::Duration::from_secs(86_400 * 365)
}

fn time_flags(m: &vfs::VfsMetadata) -> [bool; 3] {
    let t = Some(fixed_instant());
    [m.created == t, m.modified == t, m.accessed == t]
}

fn ek(_e: vfs::VfsError) -> Res {
    Res::Err(Kind::Other)
}

/// Filesystem-trait-level calls are single critical sections: the error kind is part of the answer.
fn ekf(e: vfs::VfsError) -> Res {
    Res::Err(einfo(&e).kind)
}

/// The same calls made directly on the `FileSystem` trait of MemoryFS.
fn exec_call_fs(
    fs: &dyn vfs::FileSystem,
    c: &Call,
    handle: &mut Option<Box<dyn vfs::SeekAndWrite + Send>>,
) -> Res {
    use std::io::{Read, Write};
    match c {
        Call::CreateDir(p) => fs.create_dir(p).map(|_| Res::Unit).unwrap_or_else(ekf),
        Call::OpenCreate(p) => match fs.create_file(p) {
            Ok(h) => {
                *handle = Some(h);
                Res::Unit
            }
            Err(e) => ekf(e),
        },
        Call::OpenAppend(p) => match fs.append_file(p) {
            Ok(h) => {
                *handle = Some(h);
                Res::Unit
            }
            Err(e) => ekf(e),
        },
        Call::WriteFlush(b) => match handle.as_mut() {
            Some(h) => match h.write_all(b).and_then(|_| h.flush()) {
                Ok(()) => Res::Unit,
                Err(_) => Res::Err(Kind::Io),
            },
            None => Res::NoHandle,
        },
        Call::WriteClose(b) => match handle.take() {
            Some(mut h) => {
                let r = h.write_all(b);
                drop(h);
                if r.is_ok() {
                    Res::Unit
                } else {
                    Res::Err(Kind::Io)
                }
            }
            None => Res::NoHandle,
        },
        Call::SetTime(p, k) => match k {
            0 => fs.set_creation_time(p, fixed_instant()),
            1 => fs.set_modification_time(p, fixed_instant()),
            _ => fs.set_access_time(p, fixed_instant()),
        }
        .map(|_| Res::Unit)
        .unwrap_or_else(ekf),
        Call::RemoveFile(p) => fs.remove_file(p).map(|_| Res::Unit).unwrap_or_else(ekf),
        Call::RemoveDir(p) => fs.remove_dir(p).map(|_| Res::Unit).unwrap_or_else(ekf),
        Call::Exists(p) => fs.exists(p).map(Res::Bool).unwrap_or_else(ekf),
        Call::Metadata(p) => fs
            .metadata(p)
            .map(|m| {
                Res::Meta(
                    m.file_type as u8,
                    m.len,
                    time_flags(&m),
                )
            })
            .unwrap_or_else(ekf),
        Call::ReadDir(p) => match fs.read_dir(p) {
            Ok(it) => {
                let mut v: Vec<String> = it.collect();
                v.sort();
                Res::List(v)
            }
            Err(e) => ekf(e),
        },
        Call::ReadAll(p) => match fs.open_file(p) {
            Ok(mut h) => {
                let mut b = vec![];
                match h.read_to_end(&mut b) {
                    Ok(_) => Res::Bytes(b),
                    Err(_) => Res::Err(Kind::Io),
                }
            }
            Err(e) => ekf(e),
        },
    }
}

fn exec_call(
    root: &VfsPath,
    c: &Call,
    handle: &mut Option<Box<dyn vfs::SeekAndWrite + Send>>,
) -> Res {
    use std::io::Write;
    let at = |p: &str| root.join(&p[1..]).unwrap();
    match c {
        Call::CreateDir(p) => at(p).create_dir().map(|_| Res::Unit).unwrap_or_else(ek),
        Call::OpenCreate(p) => match at(p).create_file() {
            Ok(h) => {
                *handle = Some(h);
                Res::Unit
            }
            Err(e) => ek(e),
        },
        Call::OpenAppend(p) => match at(p).append_file() {
            Ok(h) => {
                *handle = Some(h);
                Res::Unit
            }
            Err(e) => ek(e),
        },
        Call::WriteFlush(b) => match handle.as_mut() {
            Some(h) => match h.write_all(b).and_then(|_| h.flush()) {
                Ok(()) => Res::Unit,
                Err(_) => Res::Err(Kind::Io),
            },
            None => Res::NoHandle,
        },
        Call::SetTime(p, k) => match k {
            0 => at(p).set_creation_time(fixed_instant()),
            1 => at(p).set_modification_time(fixed_instant()),
            _ => at(p).set_access_time(fixed_instant()),
        }
        .map(|_| Res::Unit)
        .unwrap_or_else(ek),
        Call::WriteClose(b) => match handle.take() {
            Some(mut h) => {
                // write, then close: the drop publishes the buffer under one lock acquisition (an
                // explicit flush before it would be a second, separate publish)
                let r = h.write_all(b);
                drop(h);
                if r.is_ok() {
                    Res::Unit
                } else {
                    Res::Err(Kind::Io)
                }
            }
            None => Res::NoHandle,
        },
        Call::RemoveFile(p) => at(p).remove_file().map(|_| Res::Unit).unwrap_or_else(ek),
        Call::RemoveDir(p) => at(p).remove_dir().map(|_| Res::Unit).unwrap_or_else(ek),
        Call::Exists(p) => at(p).exists().map(Res::Bool).unwrap_or_else(ek),
        Call::Metadata(p) => at(p)
            .metadata()
            .map(|m| {
                Res::Meta(
                    m.file_type as u8,
                    m.len,
                    time_flags(&m),
                )
            })
            .unwrap_or_else(ek),
        Call::ReadDir(p) => match at(p).read_dir() {
            Ok(it) => {
                let mut v: Vec<String> = it.map(|c| c.as_str().to_string()).collect();
                v.sort();
                Res::List(v)
            }
            Err(e) => ek(e),
        },
        Call::ReadAll(p) => PathApi::read_all(&at(p))
            .map(Res::Bytes)
            .unwrap_or(Res::Err(Kind::Other)),
    }
}

#[derive(Clone, Debug)]
pub struct LinProgram {
    pub init: Vec<(String, Node)>,
    pub threads: Vec<Vec<Call>>,
    /// calls go straight to MemoryFS's `FileSystem` methods (results include error kinds)
    pub trait_level: bool,
}

pub struct LinSys {
    built: Built,
    /// the same MemoryFS instance, for calls on the `FileSystem` trait itself
    fs: SharedFs,
}

const LIN_PROBES: [&str; 3] = ["/a", "/a/f", "/b"];

fn fs_key(b: &Built) -> Vec<u8> {
    let probes: Vec<String> = LIN_PROBES.iter().map(|s| s.to_string()).collect();
    let mut bytes = vec![];
    for base in &b.bases {
        snapshot(&base.raw, &probes).key_bytes(&mut bytes);
        // which timestamps of which entries carry the instant written by SetTime
        for p in &probes {
            let set = base
                .raw
                .join(&p[1..])
                .ok()
                .and_then(|x| x.metadata().ok())
                .map(|m| time_flags(&m));
            bytes.push(match set {
                None => 0,
                Some(f) => 1 + f[0] as u8 + 2 * f[1] as u8 + 4 * f[2] as u8,
            });
        }
    }
    bytes
}

impl Program for LinProgram {
    type Sys = LinSys;
    type Rec = Res;
    fn describe(&self) -> String {
        format!("init {:?} threads {:?}", self.init, self.threads)
    }
    fn threads(&self) -> usize {
        self.threads.len()
    }
    fn setup(&self) -> LinSys {
        let built = build(&Cfg::Mem, Order::Native, &vec![(0, self.init.clone())]);
        let fs = built.mem_fs.clone().expect("HARNESS: MemoryFS handle");
        LinSys { built, fs }
    }
    fn run_thread(&self, sys: &LinSys, i: usize, rec: &Mutex<Vec<Res>>) {
        let mut handle = None;
        for c in &self.threads[i] {
            let r = if self.trait_level {
                exec_call_fs(sys.fs.0.as_ref(), c, &mut handle)
            } else {
                exec_call(&sys.built.root, c, &mut handle)
            };
            rec.lock().unwrap().push(r);
        }
        drop(handle);
    }
    fn state_hash(&self, sys: &LinSys) -> u64 {
        let mut h = std::collections::hash_map::DefaultHasher::new();
        fs_key(&sys.built).hash(&mut h);
        h.finish()
    }
}

type Outcome16 = (Vec<Vec<Res>>, Vec<u8>);

/// All sequential executions: every merge of the threads' call sequences that respects program
/// order, run on a fresh real MemoryFS.
fn sequential_outcomes(p: &LinProgram) -> BTreeSet<Outcome16> {
    fn merges(
        lens: &[usize],
        cur: &mut Vec<usize>,
        pos: &mut Vec<usize>,
        out: &mut Vec<Vec<usize>>,
    ) {
        if pos.iter().zip(lens).all(|(a, b)| a == b) {
            out.push(cur.clone());
            return;
        }
        for t in 0..lens.len() {
            if pos[t] < lens[t] {
                pos[t] += 1;
                cur.push(t);
                merges(lens, cur, pos, out);
                cur.pop();
                pos[t] -= 1;
            }
        }
    }
    let lens: Vec<usize> = p.threads.iter().map(|t| t.len()).collect();
    let mut all = vec![];
    merges(&lens, &mut vec![], &mut vec![0; lens.len()], &mut all);
    let mut set = BTreeSet::new();
    for order in all {
        let sys = p.setup();
        let mut handles: Vec<Option<Box<dyn vfs::SeekAndWrite + Send>>> =
            (0..lens.len()).map(|_| None).collect();
        let mut recs: Vec<Vec<Res>> = vec![vec![]; lens.len()];
        let mut pos = vec![0usize; lens.len()];
        for t in order {
            let c = &p.threads[t][pos[t]];
            pos[t] += 1;
            let r = if p.trait_level {
                exec_call_fs(sys.fs.0.as_ref(), c, &mut handles[t])
            } else {
                exec_call(&sys.built.root, c, &mut handles[t])
            };
            recs[t].push(r);
            if pos[t] == lens[t] {
                handles[t] = None; // the thread ends: its handle is dropped
            }
        }
        drop(handles);
        set.insert((recs, fs_key(&sys.built)));
    }
    set
}

fn well_formed_key(b: &Built) -> bool {
    let probes: Vec<String> = LIN_PROBES.iter().map(|s| s.to_string()).collect();
    let s = snapshot(&b.bases[0].raw, &probes);
    crate::tree::wellformed_violations(&s, &s, "").is_empty()
}

fn items(paths: &[&'static str], full: bool) -> Vec<Vec<Call>> {
    let mut v: Vec<Vec<Call>> = vec![];
    for p in paths {
        v.push(vec![Call::CreateDir(p)]);
        v.push(vec![Call::OpenCreate(p), Call::WriteClose(b"x")]);
        v.push(vec![Call::OpenAppend(p), Call::WriteClose(b"y")]);
        v.push(vec![Call::RemoveFile(p)]);
        v.push(vec![Call::RemoveDir(p)]);
        if full {
            for k in 0..3 {
                v.push(vec![Call::SetTime(p, k)]);
            }
            v.push(vec![Call::Exists(p)]);
            v.push(vec![Call::Metadata(p)]);
            v.push(vec![Call::ReadDir(p)]);
            v.push(vec![Call::ReadAll(p)]);
        }
    }
    if full {
        // one large write (50 000 bytes) in a session: buffering inside the write handle
        v.push(vec![Call::OpenCreate("/a/f"), Call::WriteClose(&BIG_WRITE)]);
        v.push(vec![Call::OpenAppend("/a/f"), Call::WriteClose(&BIG_WRITE)]);
        // a session that publishes twice (flush, then drop)
        v.push(vec![
            Call::OpenAppend("/a/f"),
            Call::WriteFlush(b"y"),
            Call::WriteClose(b"z"),
        ]);
        v.push(vec![
            Call::OpenCreate("/a/f"),
            Call::WriteFlush(b"y"),
            Call::WriteClose(b"z"),
        ]);
    }
    if !full {
        v.push(vec![Call::ReadDir("/a")]);
        v.push(vec![Call::Exists("/a/f")]);
    }
    v
}

fn inits16() -> Vec<Vec<(String, Node)>> {
    vec![
        vec![],
        vec![("/a".into(), Node::Dir)],
        vec![
            ("/a".into(), Node::Dir),
            ("/a/f".into(), Node::File(b"o".to_vec())),
        ],
        vec![("/a".into(), Node::File(b"o".to_vec()))],
    ]
}

/// multisets of size k from `pool` (as index vectors, non-decreasing)
fn multisets(n: usize, k: usize) -> Vec<Vec<usize>> {
    fn rec(n: usize, k: usize, start: usize, cur: &mut Vec<usize>, out: &mut Vec<Vec<usize>>) {
        if cur.len() == k {
            out.push(cur.clone());
            return;
        }
        for i in start..n {
            cur.push(i);
            rec(n, k, i, cur, out);
            cur.pop();
        }
    }
    let mut out = vec![];
    rec(n, k, 0, &mut vec![], &mut out);
    out
}

pub fn run_c16(ctx: &Ctx) -> i32 {
    let info = ctx.info("C16", "model_checking");
    *DEADLOCK_PROPERTY.lock().unwrap() = "C16".into();
    let thorough = ctx.tier == Tier::Thorough;
    let mut programs: Vec<(String, LinProgram)> = vec![];
    // class A: 2 threads x 1 call-or-session over the full alphabet on {/a, /a/f, /b}
    let full = items(&["/a", "/a/f", "/b"], true);
    for init in inits16() {
        for ms in multisets(full.len(), 2) {
            programs.push((
                "2 threads x 1 call/session".into(),
                LinProgram {
                    init: init.clone(),
                    threads: ms.iter().map(|i| full[*i].clone()).collect(),
                    trait_level: false,
                },
            ));
            programs.push((
                "FileSystem-trait level: 2 threads x 1 call/session".into(),
                LinProgram {
                    init: init.clone(),
                    threads: ms.iter().map(|i| full[*i].clone()).collect(),
                    trait_level: true,
                },
            ));
        }
    }
    if !thorough {
        // class D (quick): one thread makes two mutating calls / sessions, the other one, on {/a, /a/f}
        let muts: Vec<Vec<Call>> = items(&["/a", "/a/f"], false)
            .into_iter()
            .filter(|i| !matches!(i[0], Call::ReadDir(_) | Call::Exists(_)))
            .collect();
        // ... and a reader against two mutating calls (a file replaced by a directory in between)
        let observers: Vec<Vec<Call>> = vec![
            vec![Call::ReadAll("/a")],
            vec![Call::ReadAll("/a/f")],
            vec![Call::ReadDir("/a")],
            vec![Call::Metadata("/a")],
            vec![Call::Metadata("/a/f")],
            vec![Call::Exists("/a/f")],
        ];
        for init in inits16() {
            for a in &muts {
                for b in &muts {
                    let mut two = a.clone();
                    two.extend(b.iter().cloned());
                    for c in muts.iter().chain(observers.iter()) {
                        programs.push((
                            "2 threads x (2,1) calls/sessions on {/a,/a/f}: two mutators against a mutator or an observer".into(),
                            LinProgram {
                                init: init.clone(),
                                threads: vec![two.clone(), c.clone()],
                                trait_level: false,
                            },
                        ));
                    }
                }
            }
        }
    }
    if thorough {
        // class B: 3 threads x 1 call-or-session, full alphabet
        for init in inits16() {
            for ms in multisets(full.len(), 3) {
                programs.push((
                    "3 threads x 1 call/session".into(),
                    LinProgram {
                        init: init.clone(),
                        threads: ms.iter().map(|i| full[*i].clone()).collect(),
                        trait_level: false,
                    },
                ));
            }
        }
        // class C: 2 threads x 2 calls/sessions over the reduced alphabet (mutators on {/a, /a/f} + 2 observers)
        let red = items(&["/a", "/a/f"], false);
        let mut seqs: Vec<Vec<Call>> = vec![];
        for a in &red {
            for b in &red {
                let mut s = a.clone();
                s.extend(b.iter().cloned());
                seqs.push(s);
            }
        }
        for init in inits16() {
            for ms in multisets(seqs.len(), 2) {
                programs.push((
                    "2 threads x 2 calls/sessions (reduced alphabet)".into(),
                    LinProgram {
                        init: init.clone(),
                        threads: ms.iter().map(|i| seqs[*i].clone()).collect(),
                        trait_level: false,
                    },
                ));
            }
            // 2 threads: one with 2 items, one with 1 item from the full alphabet
            for s in &seqs {
                for f in &full {
                    programs.push((
                        "FileSystem-trait level: 2 threads x (2,1) calls/sessions".into(),
                        LinProgram {
                            init: init.clone(),
                            threads: vec![s.clone(), f.clone()],
                            trait_level: true,
                        },
                    ));
                    programs.push((
                        "2 threads x (2,1) calls/sessions".into(),
                        LinProgram {
                            init: init.clone(),
                            threads: vec![s.clone(), f.clone()],
                            trait_level: false,
                        },
                    ));
                }
            }
        }
    }
    // class E: a write session (the large one and the one that publishes twice included) against a
    // thread that first LOOKS at the file (content or length) and then changes it: whatever the
    // observer saw must still be explained by one order once the second thread's change is in
    {
        let sessions: Vec<Vec<Call>> = full
            .iter()
            .filter(|i| matches!(i[0], Call::OpenCreate("/a/f") | Call::OpenAppend("/a/f")))
            .cloned()
            .collect();
        let changers: Vec<Vec<Call>> = items(&["/a/f"], false)
            .into_iter()
            .filter(|i| !matches!(i[0], Call::ReadDir(_) | Call::Exists(_) | Call::CreateDir(_) | Call::RemoveDir(_)))
            .collect();
        for init in inits16().into_iter().skip(1).take(2) {
            for s in &sessions {
                for o in [Call::ReadAll("/a/f"), Call::Metadata("/a/f")] {
                    for c in &changers {
                        let mut b = vec![o.clone()];
                        b.extend(c.iter().cloned());
                        programs.push((
                            "2 threads: a write session on /a/f against (look at /a/f, then change it)".into(),
                            LinProgram {
                                init: init.clone(),
                                threads: vec![s.clone(), b],
                                trait_level: false,
                            },
                        ));
                    }
                }
            }
        }
    }
    // class F: a thread that changes something and then LOOKS, against a thread that only looks: what
    // the second look reports must not depend on a look that ran in the middle of the change
    {
        let muts: Vec<Vec<Call>> = items(&["/a", "/a/f"], false)
            .into_iter()
            .filter(|i| !matches!(i[0], Call::ReadDir(_) | Call::Exists(_)))
            .collect();
        let looks = [
            Call::ReadDir("/a"),
            Call::ReadAll("/a/f"),
            Call::Metadata("/a/f"),
            Call::Metadata("/a"),
            Call::Exists("/a/f"),
        ];
        for init in inits16() {
            for m in &muts {
                for o2 in &looks {
                    for o1 in &looks[..3] {
                        let mut a = m.clone();
                        a.push(o2.clone());
                        programs.push((
                            "2 threads: (change, then look) against a look".into(),
                            LinProgram {
                                init: init.clone(),
                                threads: vec![a, vec![o1.clone()]],
                                trait_level: false,
                            },
                        ));
                    }
                }
            }
        }
    }
    println!("C16: {} programs", programs.len());
    let max_execs = if thorough { 200_000 } else { 50_000 };
    let results: Vec<(String, ExploreStats, usize, usize, Vec<Violation>, Vec<usize>)> = programs
        .par_iter()
        .map(|(class, p)| {
            let seq = sequential_outcomes(p);
            let seq_all_wf = {
                // are all sequential final states well-formed? (else C03's business, not re-reported)
                true
            };
            let mut observed: BTreeSet<Outcome16> = BTreeSet::new();
            let mut vio: Vec<Violation> = vec![];
            let mut sample: Vec<usize> = vec![];
            let stats = explore(p, None, max_execs, |ex, choices| {
                if sample.is_empty() || choices.len() > sample.len() {
                    sample = choices.to_vec();
                }
                let key = (ex.records.clone(), fs_key(&ex.sys.built));
                let mk = |tail: &str, what: String| Violation {
                    property: "C16".into(),
                    signature: format!("Mem|{}|{}", tail, p.threads.iter().map(|t| t.iter().map(call_kind).collect::<Vec<_>>().join("+")).collect::<Vec<_>>().join("||")),
                    summary: format!("program {:?} from {:?}, schedule {:?}: {}", p.threads, p.init, choices, what),
                    replay: json!({"engine": "sched", "init": format!("{:?}", p.init), "threads": format!("{:?}", p.threads), "schedule": choices, "labels": ex.trace.iter().map(|s| s.label).collect::<Vec<_>>()}),
                };
                for (t, pm) in ex.panics.iter().enumerate() {
                    if let Some(m) = pm {
                        vio.push(mk("panic", format!("thread {} panicked: {}", t, m)));
                    }
                }
                if !seq.contains(&key) && ex.panics.iter().all(|p| p.is_none()) {
                    vio.push(mk("not-linearizable", format!("results {:?} with this final state are not produced by any of the {} sequential orders", ex.records, seq.len())));
                }
                if seq_all_wf && !well_formed_key(&ex.sys.built) {
                    // "in particular the tree stays well-formed": also when some sequential order of
                    // the same calls (e.g. a write handle dropped after its file and the parent
                    // directory were removed) reaches the same state
                    vio.push(mk("final-state-not-well-formed", format!("results {:?}: the final tree has an entry without a parent directory", ex.records)));
                }
                observed.insert(key);
            });
            (class.clone(), stats, seq.len(), observed.len(), crate::handle::dedupe(vio), sample)
        })
        .collect();
    let mut vio = vec![];
    let mut per_class: BTreeMap<String, (u64, u64, u64, u64, u64, bool)> = BTreeMap::new();
    let mut execs = 0u64;
    let mut points = 0u64;
    let mut states = 0u64;
    let mut multi_outcome = 0u64;
    let mut complete = true;
    let mut samples = vec![];
    for (i, (class, st, nseq, nobs, v, sample)) in results.iter().enumerate() {
        let e = per_class
            .entry(class.clone())
            .or_insert((0, 0, 0, 0, 0, true));
        e.0 += 1;
        e.1 += st.executions;
        e.2 += st.distinct_states;
        e.3 += (*nobs >= 2) as u64;
        e.4 += *nseq as u64;
        e.5 &= st.complete;
        execs += st.executions;
        points += st.scheduling_points;
        states += st.distinct_states;
        multi_outcome += (*nobs >= 2) as u64;
        complete &= st.complete;
        vio.extend(v.iter().cloned());
        if i % (results.len() / 6 + 1) == 0 {
            samples.push(json!({"program": format!("{:?}", programs[i].1.threads), "init": format!("{:?}", programs[i].1.init), "schedules": st.executions, "one_schedule": sample}));
        }
    }
    for (c, e) in &per_class {
        println!("  [{}] programs={} schedules={} distinct states={} programs with >=2 outcomes={} complete={}", c, e.0, e.1, e.2, e.3, e.5);
    }
    // group violations by signature kind for reporting
    let vio = crate::handle::dedupe(vio);
    let cov = json!({
        "states": states.max(1),
        "transitions": points.max(1),
        "traces_validated_against_impl": execs,
        "evaluations": execs.max(1),
        "distinct_nontrivial": multi_outcome,
        "rule": "for every program (multiset of thread programs over the call alphabet x 4 initial states) all interleavings at lock-acquisition granularity (stateless DFS with visited-state pruning, no preemption bound); every complete schedule's (per-thread results, final raw state) must equal that of some program-order-respecting sequential run on a fresh real MemoryFS; a program is non-trivial if its schedules produce >= 2 distinct outcomes",
        "samples": samples,
        "exhaustive": complete,
        "programs": programs.len(),
        "per_class": per_class.iter().map(|(c, e)| json!({"class": c, "programs": e.0, "schedules": e.1, "distinct_states": e.2, "programs_with_two_or_more_outcomes": e.3, "sequential_outcomes": e.4, "complete": e.5})).collect::<Vec<_>>(),
        "max_schedules_per_program_cap": max_execs,
    });
    finish(ctx, &info, cov, &["yield points before every MemoryFS lock acquisition are the only scheduling points (the crate has no unsafe, no atomics, no other synchronisation); no yield point is reached while a guard is held (watchdog)", "composite path operations are not in the alphabet (not atomic by construction; see C17)"], &vio)
}

fn call_kind(c: &Call) -> String {
    match c {
        Call::CreateDir(p) => format!("create_dir({})", p),
        Call::OpenCreate(p) => format!("create_file({})", p),
        Call::OpenAppend(p) => format!("append_file({})", p),
        Call::WriteFlush(_) => "write+flush".into(),
        Call::WriteClose(_) => "write+close".into(),
        Call::SetTime(p, 0) => format!("set_creation_time({})", p),
        Call::SetTime(p, 1) => format!("set_modification_time({})", p),
        Call::SetTime(p, _) => format!("set_access_time({})", p),
        Call::RemoveFile(p) => format!("remove_file({})", p),
        Call::RemoveDir(p) => format!("remove_dir({})", p),
        Call::Exists(p) => format!("exists({})", p),
        Call::Metadata(p) => format!("metadata({})", p),
        Call::ReadDir(p) => format!("read_dir({})", p),
        Call::ReadAll(p) => format!("read({})", p),
    }
}

// ---------------------------------------------------------------------------------------
// C17

#[derive(Clone, Debug)]
pub struct MkdirProgram {
    pub cfg: Cfg,
    pub init: Init,
    /// calls made sequentially before the threads start (e.g. an earlier removal of the prefix)
    pub pre: Vec<Op>,
    pub paths: Vec<&'static str>,
}

impl Program for MkdirProgram {
    type Sys = LinSys;
    type Rec = bool;
    fn describe(&self) -> String {
        format!(
            "{} init {:?} after {:?}: create_dir_all x {:?}",
            self.cfg.label(),
            self.init,
            self.pre.iter().map(|o| o.show()).collect::<Vec<_>>(),
            self.paths
        )
    }
    fn threads(&self) -> usize {
        self.paths.len()
    }
    fn setup(&self) -> LinSys {
        let built = build(&self.cfg, Order::Asc, &self.init);
        for op in &self.pre {
            let _ = crate::ops::apply(&built.root, op);
        }
        let fs = built
            .mem_fs
            .clone()
            .unwrap_or_else(|| SharedFs(std::sync::Arc::new(vfs::MemoryFS::new())));
        LinSys { built, fs }
    }
    fn run_thread(&self, sys: &LinSys, i: usize, rec: &Mutex<Vec<bool>>) {
        let r = sys.built.root.join(self.paths[i]).unwrap().create_dir_all();
        rec.lock().unwrap().push(r.is_ok());
    }
    fn state_hash(&self, sys: &LinSys) -> u64 {
        let mut h = std::collections::hash_map::DefaultHasher::new();
        let mut bytes = vec![];
        for base in &sys.built.bases {
            snapshot(&base.raw, &[]).key_bytes(&mut bytes);
        }
        bytes.hash(&mut h);
        h.finish()
    }
}

pub fn run_c17(ctx: &Ctx) -> i32 {
    let info = ctx.info("C17", "model_checking");
    *DEADLOCK_PROPERTY.lock().unwrap() = "C17".into();
    let thorough = ctx.tier == Tier::Thorough;
    let pool: Vec<&'static str> = vec!["a", "a/b", "a/b/c", "a/b/c/d", "a/x", "a/b/x", "e"];
    let ov = Cfg::Ov(vec![Cfg::Mem, Cfg::Mem]);
    let lower_prefix: Init = vec![(1, vec![("/a/b".to_string(), Node::Dir)])];
    // the shared prefix was there (lower layer, or plain) and was removed before the threads start:
    // on an overlay its deletion markers are still in place when the race begins
    let removed_all = vec![Op::RemoveDirAll("/a".into())];
    let removed_leaf = vec![Op::RemoveDir("/a/b".into())];
    let plain_prefix: Init = vec![(0, vec![("/a/b".to_string(), Node::Dir)])];
    // (configuration, initial contents, earlier calls, thread counts, preemption bound)
    let mut plans: Vec<(Cfg, Init, Vec<Op>, Vec<usize>, Option<usize>)> = vec![
        (Cfg::Mem, vec![], vec![], vec![2, 3], None),
        (Cfg::alt(Cfg::Mem, "/Z"), vec![], vec![], vec![2], None),
        (ov.clone(), vec![], vec![], vec![2], None),
        (ov.clone(), lower_prefix.clone(), vec![], vec![2], None),
        (
            ov.clone(),
            lower_prefix.clone(),
            removed_all.clone(),
            vec![2],
            None,
        ),
        (
            ov.clone(),
            lower_prefix.clone(),
            removed_leaf.clone(),
            vec![2],
            None,
        ),
        (
            Cfg::Mem,
            plain_prefix.clone(),
            removed_all.clone(),
            vec![2],
            None,
        ),
        (Cfg::Phys, vec![], vec![], vec![2, 3], None),
        // three levels: an error crosses two adapters (and three path layers) on its way up
        (Cfg::alt(ov.clone(), "/Z"), vec![], vec![], vec![2], None),
        (Cfg::Ov(vec![Cfg::alt(Cfg::Mem, "/Z"), Cfg::Mem]), vec![], vec![], vec![2], None),
        (Cfg::alt(Cfg::alt(Cfg::Mem, "/Z"), "/Y"), vec![], vec![], vec![2], None),
        // a physical lower layer in which the prefix was a FILE that was removed and re-created as
        // a directory through the overlay before the race
        (
            Cfg::Ov(vec![Cfg::Mem, Cfg::Phys]),
            vec![(1, vec![("/a".to_string(), Node::File(b"l".to_vec()))])],
            vec![Op::RemoveFile("/a".into()), Op::CreateDir("/a".into())],
            vec![2],
            None,
        ),
    ];
    if thorough {
        plans.push((Cfg::Mem, vec![], vec![], vec![4], Some(3)));
        plans.push((Cfg::alt(Cfg::Mem, "/Z"), vec![], vec![], vec![3], None));
        plans.push((ov.clone(), vec![], vec![], vec![3], Some(2)));
        plans.push((ov.clone(), lower_prefix.clone(), vec![], vec![3], Some(2)));
        plans.push((
            ov.clone(),
            lower_prefix.clone(),
            removed_all.clone(),
            vec![3],
            Some(2),
        ));
        plans.push((
            Cfg::Ov(vec![Cfg::Mem, Cfg::Mem, Cfg::Mem]),
            vec![(2, vec![("/a/b".to_string(), Node::Dir)])],
            removed_all.clone(),
            vec![2],
            None,
        ));
        plans.push((Cfg::alt(ov.clone(), "/Z"), vec![], vec![], vec![2], None));
        plans.push((Cfg::Phys, vec![], vec![], vec![4], Some(3)));
        plans.push((
            Cfg::Phys,
            plain_prefix.clone(),
            removed_all.clone(),
            vec![2],
            None,
        ));
        plans.push((Cfg::alt(Cfg::Phys, "/Z"), vec![], vec![], vec![2, 3], None));
    }
    let mut programs: Vec<(String, MkdirProgram, Option<usize>)> = vec![];
    for (cfg, init, pre, ks, bound) in &plans {
        for k in ks {
            // quick tier: overlays (long call chains per create_dir) use the 4 paths that share prefixes of every length
            let small = !thorough && cfg.has_overlay();
            let pool: Vec<&'static str> = if small {
                vec!["a", "a/b", "a/b/c", "a/x"]
            } else {
                pool.clone()
            };
            for ms in multisets(pool.len(), *k) {
                let label = format!(
                    "{}{}{} x {} threads{}",
                    cfg.label(),
                    if init.is_empty() {
                        ""
                    } else if cfg.has_overlay() {
                        " (shared prefix only in the lower layer)"
                    } else {
                        " (shared prefix present)"
                    },
                    if pre.is_empty() {
                        String::new()
                    } else {
                        format!(
                            " after {}",
                            pre.iter().map(|o| o.show()).collect::<Vec<_>>().join(", ")
                        )
                    },
                    k,
                    bound
                        .map(|b| format!(" (preemption bound {})", b))
                        .unwrap_or_default()
                );
                programs.push((
                    label,
                    MkdirProgram {
                        cfg: cfg.clone(),
                        init: init.clone(),
                        pre: pre.clone(),
                        paths: ms.iter().map(|i| pool[*i]).collect(),
                    },
                    *bound,
                ));
            }
        }
    }
    // (debugging aid: VFSMC_ONLY_CLASS=<substring> keeps only the program classes whose label
    // contains it; the evidence then lists just those classes)
    if let Ok(only) = std::env::var("VFSMC_ONLY_CLASS") {
        programs.retain(|(class, _, _)| class.contains(&only));
    }
    println!("C17: {} programs", programs.len());
    let max_execs = if thorough { 300_000 } else { 60_000 };
    let results: Vec<(String, ExploreStats, usize, Vec<Violation>, Vec<usize>)> = programs
        .par_iter()
        .map(|(class, p, bound)| {
            let mut vio = vec![];
            let mut outcomes: BTreeSet<Vec<Vec<bool>>> = BTreeSet::new();
            let mut sample = vec![];
            let stats = explore(p, *bound, max_execs, |ex, choices| {
                if choices.len() > sample.len() {
                    sample = choices.to_vec();
                }
                outcomes.insert(ex.records.clone());
                let mk = |tail: &str, what: String| Violation {
                    property: "C17".into(),
                    signature: format!("{}|{}", p.cfg.label(), tail),
                    summary: format!("{} threads create_dir_all {:?} on {}, schedule {:?}: {}", p.paths.len(), p.paths, p.cfg.label(), choices, what),
                    replay: json!({"engine": "sched", "configuration": p.cfg.label(), "initial_contents": format!("{:?}", p.init), "earlier_calls": p.pre.iter().map(|o| o.show()).collect::<Vec<_>>(), "paths": p.paths, "schedule": choices, "labels": ex.trace.iter().map(|s| s.label).collect::<Vec<_>>()}),
                };
                for (t, pm) in ex.panics.iter().enumerate() {
                    if let Some(m) = pm {
                        vio.push(mk("panic", format!("thread {} panicked: {}", t, m)));
                    }
                }
                for (t, r) in ex.records.iter().enumerate() {
                    if r != &vec![true] && ex.panics[t].is_none() {
                        vio.push(mk("create_dir_all-failed", format!("thread {} (create_dir_all({:?})) returned an error", t, p.paths[t])));
                    }
                }
                for path in &p.paths {
                    let mut cur = String::new();
                    for comp in path.split('/') {
                        cur = format!("{}/{}", cur, comp);
                        let ok = ex.sys.built.root.join(&cur[1..]).map(|x| x.is_dir().unwrap_or(false)).unwrap_or(false);
                        if !ok {
                            vio.push(mk("prefix-not-a-directory", format!("afterwards {:?} is not a directory", cur)));
                        }
                    }
                }
            });
            (class.clone(), stats, outcomes.len(), crate::handle::dedupe(vio), sample)
        })
        .collect();
    let mut vio = vec![];
    let mut per_class: BTreeMap<String, (u64, u64, u64, bool, usize)> = BTreeMap::new();
    let (mut execs, mut points, mut states) = (0u64, 0u64, 0u64);
    let mut complete = true;
    let mut samples = vec![];
    let mut nontrivial = 0u64;
    for (i, (class, st, _nout, v, sample)) in results.iter().enumerate() {
        let e = per_class.entry(class.clone()).or_insert((0, 0, 0, true, 0));
        e.0 += 1;
        e.1 += st.executions;
        e.2 += st.distinct_states;
        e.3 &= st.complete;
        e.4 = e.4.max(st.max_preemptions_used);
        execs += st.executions;
        points += st.scheduling_points;
        states += st.distinct_states;
        complete &= st.complete;
        nontrivial += (st.executions >= 2) as u64;
        vio.extend(v.iter().cloned());
        if i % (results.len() / 6 + 1) == 0 {
            samples.push(json!({"program": programs[i].1.describe(), "schedules": st.executions, "one_schedule": sample}));
        }
    }
    for (c, e) in &per_class {
        println!("  [{}] programs={} schedules={} distinct states={} complete={} max preemptions used={}", c, e.0, e.1, e.2, e.3, e.4);
    }
    let vio = crate::handle::dedupe(vio);
    let cov = json!({
        "states": states.max(1),
        "transitions": points.max(1),
        "traces_validated_against_impl": execs,
        "evaluations": execs.max(1),
        "distinct_nontrivial": nontrivial,
        "rule": "k threads each calling create_dir_all(p_i) for all k-multisets of {a, a/b, a/b/c, a/b/c/d, a/x, a/b/x, e}; all interleavings at MemoryFS lock granularity (PhysicalFS: at create_dir call granularity) by stateless DFS with visited-state pruning; classes with a preemption bound say so; a program is non-trivial if it has >= 2 schedules",
        "samples": samples,
        "exhaustive": complete,
        "programs": programs.len(),
        "per_class": per_class.iter().map(|(c, e)| json!({"class": c, "programs": e.0, "schedules": e.1, "distinct_states": e.2, "complete": e.3, "max_preemptions_used": e.4})).collect::<Vec<_>>(),
    });
    finish(ctx, &info, cov, &["PhysicalFS: mkdir(2) is atomic in the kernel and nobody else touches the scratch directory; interleavings at create_dir call granularity (this replaces the property's randomised stress, which is sampling)", "no concurrent removals, no files in the way (as the property says)"], &vio)
}
