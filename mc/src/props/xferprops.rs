//! C11: recursive and transfer operations are exact, within and across filesystems.

use super::*;
use crate::api::*;
use crate::snapshot::{diff_model, snapshot};
use std::collections::BTreeMap;

#[derive(Clone, Copy, PartialEq, Debug)]
enum Mode {
    TwoFilesystems,
    SameInstance,
}

fn contents() -> Vec<Vec<u8>> {
    vec![
        b"".to_vec(),
        b"x".to_vec(),
        b"\xff\x00\xfe".to_vec(),
        crate::handle::pattern(8193),
    ]
}

/// Source trees below /s: every well-formed tree over {a, a/a, a/b, b}; file i gets content i mod 4.
fn source_trees() -> Vec<Vec<(String, Node)>> {
    let paths: Vec<String> = ["/a", "/a/a", "/a/b", "/b"]
        .iter()
        .map(|s| s.to_string())
        .collect();
    // sibling directories whose names are prefixes of each other (and sort next to each other),
    // empty or with a file inside
    let prefix_siblings: Vec<String> = ["/a", "/ab", "/a/x", "/ab/x", "/a.b"]
        .iter()
        .map(|s| s.to_string())
        .collect();
    let w = contents();
    let mut all = trees_over(&paths, b"");
    all.extend(trees_over(&prefix_siblings, b"").into_iter().filter(|t| {
        t.iter().any(|(p, n)| p == "/a" && matches!(n, Node::Dir)) && t.iter().any(|(p, n)| p == "/ab" && matches!(n, Node::Dir))
    }));
    all.into_iter()
        .map(|t| {
            let mut i = 0;
            let mut v = vec![("/s".to_string(), Node::Dir)];
            for (p, n) in t {
                let p = format!("/s{}", p);
                match n {
                    Node::Dir => v.push((p, Node::Dir)),
                    Node::File(_) => {
                        v.push((p, Node::File(w[i % w.len()].clone())));
                        i += 1;
                    }
                }
            }
            v
        })
        .collect()
}

fn project(joint: &Model, prefix: &str) -> Model {
    let mut m = Model::new();
    for (p, n) in &joint.t {
        if let Some(rest) = p.strip_prefix(prefix) {
            if rest.is_empty() || rest.starts_with('/') {
                m.t.insert(rest.to_string(), n.clone());
            }
        }
    }
    m
}

fn prefixed(prefix: &str, entries: &[(String, Node)]) -> Vec<(String, Node)> {
    entries
        .iter()
        .map(|(p, n)| (format!("{}{}", prefix, p), n.clone()))
        .collect()
}

pub fn run_c11(ctx: &Ctx) -> i32 {
    let info = ctx.info("C11", "model_checking");
    let thorough = ctx.tier == Tier::Thorough;
    // (a) inside one instance: the composite calls in every reachable state (BFS to fixpoint)
    let mon = Monitors {
        model: true,
        ..Default::default()
    };
    let mut spaces = vec![];
    for cfg in [
        Cfg::Mem,
        Cfg::Phys,
        Cfg::alt(Cfg::Mem, "/Z"),
        Cfg::Ov(vec![Cfg::Mem, Cfg::Mem]),
    ] {
        let u = if matches!(cfg, Cfg::Ov(_)) {
            u4()
        } else {
            u22()
        };
        spaces.push(TreeSpace::new(
            "C11",
            cfg,
            Order::Asc,
            alphabet(u, &[b"x"], 1, true),
            Domain::Typed,
            empty_init(true),
            mon.clone(),
        ));
    }
    // multi-byte and prefix-sharing names (re-rooting by byte offsets), and an overlay whose lower
    // layer holds the subtrees that are removed / copied / moved
    let mb = Universe::new("U_mb{é,é/a,éa,éa/é}", &["/é", "/é/a", "/éa", "/éa/é"]);
    spaces.push(TreeSpace::new(
        "C11",
        Cfg::Mem,
        Order::Asc,
        alphabet(mb.clone(), &[b"x"], 1, true),
        Domain::Typed,
        empty_init(true),
        mon.clone(),
    ));
    spaces.push(TreeSpace::new(
        "C11",
        Cfg::Phys,
        Order::Asc,
        alphabet(mb.clone(), &[b"x"], 1, true),
        Domain::Typed,
        empty_init(true),
        mon.clone(),
    ));
    spaces.push(TreeSpace::new(
        "C11",
        Cfg::Mem,
        Order::Asc,
        alphabet(u_names_small(), &[b"x"], 1, true),
        Domain::Typed,
        empty_init(true),
        mon.clone(),
    ));
    spaces.push(TreeSpace::new(
        "C11",
        Cfg::Ov(vec![Cfg::Mem, Cfg::Mem]),
        Order::Asc,
        alphabet(u3(), &[b"x"], 1, true),
        Domain::Typed,
        layerings(&[0, 1], &u3().paths, false),
        mon.clone(),
    ));
    // three levels: what is below a lower-layer subdirectory of the directory that is removed / moved
    let chain = Universe::new("U_chain3{a,a/a,a/a/a}", &["/a", "/a/a", "/a/a/a"]);
    spaces.push(TreeSpace::new(
        "C11",
        Cfg::Ov(vec![Cfg::Mem, Cfg::Mem]),
        Order::Asc,
        alphabet(chain.clone(), &[b"x"], 1, true),
        Domain::Typed,
        layerings(&[0, 1], &chain.paths, false),
        mon.clone(),
    ));
    if thorough {
        spaces.push(TreeSpace::new(
            "C11",
            Cfg::Mem,
            Order::Asc,
            alphabet(u_names(), &[b"x"], 1, true),
            Domain::Typed,
            empty_init(true),
            mon.clone(),
        ));
        spaces.push(TreeSpace::new(
            "C11",
            Cfg::Ov(vec![Cfg::Mem, Cfg::Mem, Cfg::Mem]),
            Order::Asc,
            alphabet(u3(), &[b"x"], 1, true),
            Domain::Typed,
            layerings(&[0, 1, 2], &u3().paths, false),
            mon.clone(),
        ));
        spaces.push(TreeSpace::new(
            "C11",
            Cfg::Mem,
            Order::Desc,
            alphabet(u23(), &[b"x"], 1, true),
            Domain::Typed,
            empty_init(true),
            mon.clone(),
        ));
        spaces.push(TreeSpace::new(
            "C11",
            Cfg::Mem,
            Order::Desc,
            alphabet(u32(), &[b"x"], 1, true),
            Domain::Typed,
            empty_init(true),
            mon.clone(),
        ));
    } else {
        spaces.push(TreeSpace::new(
            "C11",
            Cfg::Mem,
            Order::Desc,
            alphabet(u22(), &[b"", b"x"], 2, true),
            Domain::Typed,
            empty_init(true),
            mon.clone(),
        ));
    }
    let lim = limits(ctx);
    let (mut stats, mut vio) = run_spaces(ctx, spaces, &lim);

    // (b) across instances
    let backends: Vec<Cfg> = vec![
        Cfg::Mem,
        Cfg::Phys,
        Cfg::alt(Cfg::Mem, "/Z"),
        Cfg::alt(Cfg::Phys, "/Z"),
        Cfg::Ov(vec![Cfg::Mem, Cfg::Mem]),
    ];
    let mut pairs: Vec<(Cfg, Cfg, Mode)> = vec![];
    for (i, a) in backends.iter().enumerate() {
        for (j, b) in backends.iter().enumerate() {
            let quick_pick = matches!(
                (i, j),
                (0, 0) | (0, 1) | (1, 0) | (1, 1) | (0, 4) | (4, 1) | (2, 3)
            );
            if thorough || quick_pick {
                pairs.push((a.clone(), b.clone(), Mode::TwoFilesystems));
            }
        }
        pairs.push((a.clone(), a.clone(), Mode::SameInstance));
    }
    let trees = source_trees();
    let dests = ["/d", "/e/d", "/m/d", "/x", "/e", "/x/d"];
    let dest_env: Vec<(String, Node)> = vec![
        ("/e".to_string(), Node::Dir),
        ("/x".to_string(), Node::File(b"old".to_vec())),
        ("/e/keep".to_string(), Node::File(b"k".to_vec())),
    ];
    let mut runs = 0u64;
    let mut classes: BTreeMap<String, u64> = BTreeMap::new();
    let mut xvio: Vec<Violation> = vec![];
    // "identical whether source and destination live on the same instance or on two": for the
    // failing calls the model leaves open (missing source side or destination parent) the outcome
    // and what is left of the SOURCE are collected per (source backend, call, source, destination)
    // and compared across the instance pairings
    let mut by_case: BTreeMap<(String, String, usize, String), Vec<(String, String, Vec<String>)>> = BTreeMap::new();
    for (ca, cb, mode) in &pairs {
        let plabel = format!(
            "{}->{}{}",
            ca.label(),
            cb.label(),
            if *mode == Mode::SameInstance {
                " (same instance)"
            } else {
                ""
            }
        );
        // sources: every tree for copy_dir/move_dir, every content for copy_file/move_file
        let mut sources: Vec<(Vec<(String, Node)>, &str, Vec<&str>)> = vec![];
        for t in &trees {
            sources.push((t.clone(), "/s", vec!["copy_dir", "move_dir"]));
        }
        for w in contents() {
            sources.push((
                vec![("/f".to_string(), Node::File(w))],
                "/f",
                vec!["copy_file", "move_file"],
            ));
        }
        for (src_idx, (src_entries, src, calls)) in sources.iter().enumerate() {
            for call in calls {
                for dest in dests {
                    runs += 1;
                    let same = *mode == Mode::SameInstance;
                    let mut a_entries = src_entries.clone();
                    if same {
                        a_entries.extend(dest_env.iter().cloned());
                    }
                    let a = build(ca, Order::Asc, &vec![]);
                    let b_sys = if same {
                        None
                    } else {
                        Some(build(cb, Order::Asc, &vec![]))
                    };
                    // populate through the stacks themselves
                    let populate = |root: &vfs::VfsPath, es: &[(String, Node)]| {
                        for (p, n) in es {
                            let x = at(root, p).unwrap();
                            match n {
                                Node::Dir => x.create_dir_all().expect("HARNESS: populate"),
                                Node::File(bytes) => {
                                    PathApi::write_file(&x, bytes).expect("HARNESS: populate")
                                }
                            }
                        }
                    };
                    populate(&a.root, &a_entries);
                    if let Some(b) = &b_sys {
                        populate(&b.root, &dest_env);
                    }
                    let (pa, pb) = if same { ("/A", "/A") } else { ("/A", "/B") };
                    let mut joint = Model::new();
                    joint.t.insert("/A".into(), Node::Dir);
                    joint.insert_tree(&prefixed("/A", &a_entries));
                    if !same {
                        joint.t.insert("/B".into(), Node::Dir);
                        joint.insert_tree(&prefixed("/B", &dest_env));
                    }
                    let (jp, jq) = (format!("{}{}", pa, src), format!("{}{}", pb, dest));
                    let op = match *call {
                        "copy_dir" => Op::CopyDir(jp, jq),
                        "move_dir" => Op::MoveDir(jp, jq),
                        "copy_file" => Op::CopyFile(jp, jq),
                        _ => Op::MoveFile(jp, jq),
                    };
                    let (exp, joint2) = joint.step(&op);
                    let b_root = b_sys
                        .as_ref()
                        .map(|b| b.root.clone())
                        .unwrap_or_else(|| a.root.clone());
                    let sp = at(&a.root, src).unwrap();
                    let dp = at(&b_root, dest).unwrap();
                    let out = guard(|| match *call {
                        "copy_dir" => sp.copy_dir(&dp).map(Some).map_err(|e| einfo(&e)),
                        "move_dir" => sp.move_dir(&dp).map(|_| None).map_err(|e| einfo(&e)),
                        "copy_file" => sp.copy_file(&dp).map(|_| None).map_err(|e| einfo(&e)),
                        _ => sp.move_file(&dp).map(|_| None).map_err(|e| einfo(&e)),
                    });
                    let dcls = match dest {
                        "/d" | "/e/d" => "absent-dest",
                        "/m/d" => "missing-parent",
                        "/x" | "/e" => "existing-dest",
                        _ => "parent-is-file",
                    };
                    let ocl = match &out {
                        Ok(Ok(_)) => "Ok".to_string(),
                        Ok(Err(e)) => format!("Err({})", e.kind.name()),
                        Err(_) => "Panic".into(),
                    };
                    *classes
                        .entry(format!("{}:{}:{}", call, dcls, ocl))
                        .or_insert(0) += 1;
                    let mk = |tail: &str, what: String| Violation {
                        property: "C11".into(),
                        signature: format!("{}|{}|{}|{}", plabel, call, dcls, tail),
                        summary: format!(
                            "{} {}({:?} -> {:?}) with source {:?}: {}",
                            plabel,
                            call,
                            src,
                            dest,
                            src_entries
                                .iter()
                                .map(|(p, n)| format!(
                                    "{}{}",
                                    p,
                                    if *n == Node::Dir { "/" } else { "" }
                                ))
                                .collect::<Vec<_>>(),
                            what
                        ),
                        replay: json!({"engine": "xfer", "pair": plabel, "call": call, "source": src, "dest": dest, "source_entries": src_entries.iter().map(|(p, n)| json!({"path": p, "dir": *n == Node::Dir})).collect::<Vec<_>>()}),
                    };
                    let probes_a: Vec<String> = a_entries
                        .iter()
                        .map(|(p, _)| p.clone())
                        .chain(dests.iter().map(|d| d.to_string()))
                        .collect();
                    let snap_a = snapshot(&a.root, &probes_a).without_markers();
                    let snap_b = b_sys
                        .as_ref()
                        .map(|b| snapshot(&b.root, &probes_a).without_markers());
                    let check_trees = |m: &Model, tail: &str, xvio: &mut Vec<Violation>| {
                        let da = diff_model(&snap_a, &project(m, "/A"), &probes_a);
                        if !da.is_empty() {
                            xvio.push(mk(
                                &format!("{}-source-fs", tail),
                                format!("source filesystem: {}", da.join("; ")),
                            ));
                        }
                        if let Some(sb) = &snap_b {
                            let db = diff_model(sb, &project(m, "/B"), &probes_a);
                            if !db.is_empty() {
                                xvio.push(mk(
                                    &format!("{}-dest-fs", tail),
                                    format!("destination filesystem: {}", db.join("; ")),
                                ));
                            }
                        }
                    };
                    match (&exp, &out) {
                        (_, Err(m)) => xvio.push(mk("panic", format!("panicked: {}", m))),
                        (Expect::Ok(ret), Ok(Ok(got))) => {
                            if ret.is_some() && got != ret {
                                xvio.push(mk(
                                    "wrong-count",
                                    format!("returned {:?}, expected {:?}", got, ret),
                                ));
                            }
                            check_trees(&joint2, "effect-differs", &mut xvio);
                        }
                        (Expect::Ok(_), Ok(Err(e))) => xvio.push(mk(
                            &format!("exp=Ok|got=Err({})", e.kind.name()),
                            format!("failed: {}", e.display),
                        )),
                        (Expect::Err { .. }, Ok(Ok(_))) => xvio.push(mk(
                            "exp=Err|got=Ok",
                            "succeeded although the destination exists / has no directory parent"
                                .into(),
                        )),
                        (Expect::Err { unchanged, .. }, Ok(Err(_))) => {
                            if *unchanged {
                                check_trees(&joint, "refused-with-side-effects", &mut xvio);
                            }
                        }
                    }
                    if matches!(exp, Expect::Err { unchanged: false, .. }) {
                        let left: Vec<String> = snap_a
                            .dump()
                            .into_iter()
                            .filter(|l| crate::config::dump_line_is_below(l, src))
                            .collect();
                        by_case
                            .entry((ca.label(), call.to_string(), src_idx, dest.to_string()))
                            .or_default()
                            .push((plabel.clone(), if matches!(out, Ok(Ok(_))) { "Ok".into() } else { "Err".into() }, left));
                    }
                }
            }
        }
        println!(
            "  [{}] runs so far={} violations so far={}",
            plabel,
            runs,
            xvio.len()
        );
    }
    let mut compared = 0u64;
    for ((ca, call, _si, dest), runs_of_case) in &by_case {
        let (l0, o0, s0) = &runs_of_case[0];
        for (l, o, sdump) in &runs_of_case[1..] {
            compared += 1;
            if o != o0 || sdump != s0 {
                let dcls = match dest.as_str() {
                    "/m/d" => "missing-parent",
                    _ => "parent-is-file",
                };
                xvio.push(Violation {
                    property: "C11".into(),
                    signature: format!("{}|{}|{}|result-depends-on-the-instance-pairing", ca, call, dcls),
                    summary: format!("{} from {} to {:?}: [{}] gives {} and leaves the source as {:?}, [{}] gives {} and leaves {:?}", call, ca, dest, l0, o0, s0, l, o, sdump),
                    replay: json!({"engine": "xfer", "pairs": [l0, l], "call": call, "dest": dest}),
                });
            }
        }
    }
    classes.insert("failing-calls-compared-across-instance-pairings".into(), compared);
    vio.extend(crate::handle::dedupe(xvio));
    let mut xs = Stats {
        label: "cross-filesystem transfers (one call each from harness-built states)".into(),
        states: pairs.len() as u64,
        transitions: runs,
        fixpoint: true,
        nontrivial: classes.len() as u64,
        ..Default::default()
    };
    xs.counters = classes;
    xs.samples = vec![
        vec!["copy_dir(A:/s -> B:/e/d) for every source tree over {a, a/a, a/b, b}".into()],
        vec!["move_file(A:/f -> B:/x) (existing destination)".into()],
    ];
    stats.push(xs);
    let mut counts = BTreeMap::new();
    for st in &stats {
        for (k, v) in &st.vio_counts {
            *counts.entry(k.clone()).or_insert(0u64) += v;
        }
    }
    let cov = bfs_coverage(
        &stats,
        "(a) BFS to fixpoint with create_dir_all / remove_dir_all / copy_* / move_* in the alphabet (every source tree and destination over the universe in every reachable state); (b) every source tree over {a, a/a, a/b, b} (4 contents incl. non-UTF-8 and 8193 bytes) x 6 destination classes x 4 calls x ordered pairs of backend instances (two filesystems, two instances of one backend, same instance) against a two-tree model",
        json!({"pairs": pairs.iter().map(|(a, b, m)| format!("{}->{} {:?}", a.label(), b.label(), m)).collect::<Vec<_>>()}),
    );
    finish_counts(ctx, &info, cov, &["alphabet bound; destinations outside the source subtree only (documented non-termination otherwise)"], &vio, &counts)
}
