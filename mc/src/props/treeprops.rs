//! Properties decided by the explicit-state explorer over one live system:
//! C01 (model), C03 (well-formedness), C05 (observer consistency), C08 (lower layers
//! immutable), C09/C10 (overlay union / deletions), C12 (error paths and kinds).

use super::*;
use crate::api::PathApi;
use crate::snapshot::snapshot;

fn leaves(c: &Cfg) -> usize {
    match c {
        Cfg::Mem | Cfg::Phys => 1,
        Cfg::Alt(s, _) | Cfg::Sub(s, _, _) => leaves(s),
        Cfg::OvShared(_, dirs) => dirs.len(),
        Cfg::Ov(l) => l.iter().map(leaves).sum(),
    }
}

fn mem2() -> Cfg {
    Cfg::Ov(vec![Cfg::Mem, Cfg::Mem])
}
fn phys2() -> Cfg {
    Cfg::Ov(vec![Cfg::Phys, Cfg::Phys])
}

const W2: [&[u8]; 2] = [b"", b"x"];
const W1: [&[u8]; 1] = [b"x"];

struct Plan {
    cfg: Cfg,
    order: Order,
    alpha: Alphabet,
    inits: Vec<InitSpec>,
}

fn plain(cfg: Cfg, order: Order, alpha: Alphabet) -> Plan {
    Plan {
        cfg,
        order,
        alpha,
        inits: empty_init(true),
    }
}

fn populated(cfg: Cfg, order: Order, alpha: Alphabet, lower: &Universe, full: bool) -> Plan {
    let n = leaves(&cfg);
    let bases: Vec<usize> = (0..n).collect();
    let inits = layerings(&bases, &lower.paths, full);
    Plan {
        cfg,
        order,
        alpha,
        inits,
    }
}

/// Configurations without pre-populated layers (C01, C03, C05, C12).
fn base_plans(tier: Tier) -> Vec<Plan> {
    let mut v = vec![];
    let a22 = alphabet(u22(), &W2, 2, true);
    let a4 = alphabet(u4(), &W1, 2, true);
    let names_prim = alphabet(u_names(), &W1, 1, false);
    v.push(plain(Cfg::Mem, Order::Asc, a22.clone()));
    v.push(plain(Cfg::Mem, Order::Desc, alphabet(u22(), &W1, 1, true)));
    v.push(plain(Cfg::Mem, Order::Native, alphabet(u4(), &W1, 1, true)));
    v.push(plain(Cfg::Phys, Order::Asc, alphabet(u22(), &W1, 2, true)));
    v.push(plain(
        Cfg::alt(Cfg::Mem, "/Z"),
        Order::Asc,
        alphabet(u22(), &W1, 2, true),
    ));
    v.push(plain(
        Cfg::alt(Cfg::Phys, "/Z/Y"),
        Order::Asc,
        alphabet(u4(), &W1, 1, true),
    ));
    v.push(plain(mem2(), Order::Asc, a4.clone()));
    v.push(plain(Cfg::Ov(vec![Cfg::Mem]), Order::Asc, a4.clone()));
    v.push(plain(phys2(), Order::Asc, alphabet(u3(), &W1, 1, true)));
    // a chain three components deep: lookups below a *file* (ENOTDIR on a physical backend)
    let chain = Universe::new("U_chain3{a,a/a,a/a/a}", &["/a", "/a/a", "/a/a/a"]);
    v.push(plain(
        Cfg::Phys,
        Order::Asc,
        alphabet(chain.clone(), &W1, 1, true),
    ));
    v.push(plain(
        Cfg::alt(Cfg::Phys, "/Z"),
        Order::Asc,
        alphabet(chain.clone(), &W1, 1, true),
    ));
    v.push(plain(
        Cfg::Mem,
        Order::Asc,
        alphabet(chain.clone(), &W1, 1, true),
    ));
    // adapters stacked on adapters (the larger stackings are in the thorough tier)
    v.push(plain(
        Cfg::alt(mem2(), "/Z"),
        Order::Asc,
        alphabet(u3(), &W1, 1, true),
    ));
    v.push(plain(
        Cfg::Ov(vec![Cfg::alt(Cfg::Mem, "/Z"), Cfg::Mem]),
        Order::Desc,
        alphabet(u3(), &W1, 1, true),
    ));
    v.push(plain(Cfg::Mem, Order::Asc, names_prim.clone()));
    v.push(plain(Cfg::Phys, Order::Asc, names_prim.clone()));
    v.push(plain(
        mem2(),
        Order::Desc,
        alphabet(u_names_small(), &W1, 1, false),
    ));
    // an altroot directory whose name is a prefix of the names below it (P = /a over a, ab, a.b)
    v.push(plain(
        Cfg::alt(Cfg::Mem, "/a"),
        Order::Asc,
        names_prim.clone(),
    ));
    // composites over multi-byte components that are not the last one (byte offsets vs char counts)
    let mb = Universe::new("U_mb{é,é/a,éa,éa/é}", &["/é", "/é/a", "/éa", "/éa/é"]);
    v.push(plain(
        Cfg::Mem,
        Order::Asc,
        alphabet(mb.clone(), &W1, 1, true),
    ));
    v.push(plain(
        Cfg::Phys,
        Order::Asc,
        alphabet(mb.clone(), &W1, 1, true),
    ));
    // names a listing might filter or split by mistake: leading dots, only dots, a backslash
    let odd = Universe::new("U_odd{.a,.a/.b,...,a\\b,a\\b/c\\d}", &["/.a", "/.a/.b", "/...", "/a\\b", "/a\\b/c\\d"]);
    v.push(plain(Cfg::Phys, Order::Asc, alphabet(odd.clone(), &W1, 1, false)));
    v.push(plain(Cfg::alt(Cfg::Mem, "/Z"), Order::Asc, alphabet(odd.clone(), &W1, 1, false)));
    v.push(plain(Cfg::alt(Cfg::Phys, "/Z"), Order::Asc, alphabet(odd.clone(), &W1, 1, false)));
    if tier == Tier::Thorough {
        v.push(plain(
            Cfg::alt(Cfg::Mem, ""),
            Order::Asc,
            names_prim.clone(),
        ));
        v.push(plain(
            Cfg::alt(Cfg::Mem, "/é"),
            Order::Asc,
            alphabet(mb.clone(), &W1, 1, true),
        ));
        v.push(plain(
            mem2(),
            Order::Asc,
            alphabet(mb.clone(), &W1, 1, true),
        ));
        v.push(plain(
            mem2(),
            Order::Desc,
            alphabet(u_names(), &W1, 1, false),
        ));
        let names_full = alphabet(u_names(), &W1, 1, true);
        v.push(plain(Cfg::Mem, Order::Asc, alphabet(u23(), &W1, 1, true)));
        v.push(plain(Cfg::Mem, Order::Asc, alphabet(u32(), &W1, 1, true)));
        v.push(plain(Cfg::Mem, Order::Asc, names_full.clone()));
        v.push(plain(
            Cfg::Phys,
            Order::Asc,
            alphabet(u22(), &[b"", b"x", b"\xff\x00"], 1, true),
        ));
        v.push(plain(
            Cfg::Phys,
            Order::Desc,
            alphabet(u4(), &[b"x"], 5, true),
        ));
        v.push(plain(Cfg::alt(Cfg::Phys, "/Z"), Order::Desc, a22.clone()));
        v.push(plain(
            Cfg::alt(Cfg::alt(Cfg::Mem, "/Z"), "/Y"),
            Order::Asc,
            a22.clone(),
        ));
        v.push(plain(Cfg::alt(Cfg::Mem, ""), Order::Asc, a22.clone()));
        v.push(plain(Cfg::alt(Cfg::Mem, "/Z/Y/X"), Order::Asc, a22.clone()));
        v.push(plain(Cfg::alt(mem2(), "/Z"), Order::Asc, a4.clone()));
        v.push(plain(
            Cfg::Ov(vec![Cfg::alt(Cfg::Mem, "/Z"), Cfg::Mem]),
            Order::Asc,
            a4.clone(),
        ));
        v.push(plain(
            Cfg::Ov(vec![mem2(), Cfg::Mem]),
            Order::Asc,
            a4.clone(),
        ));
        v.push(plain(
            Cfg::Ov(vec![Cfg::Mem, Cfg::Mem, Cfg::Mem]),
            Order::Asc,
            a4.clone(),
        ));
        v.push(plain(
            Cfg::Ov(vec![Cfg::Mem, Cfg::Phys]),
            Order::Asc,
            a4.clone(),
        ));
        v.push(plain(
            Cfg::Ov(vec![Cfg::Phys, Cfg::Mem]),
            Order::Asc,
            a4.clone(),
        ));
        v.push(plain(mem2(), Order::Asc, a22.clone()));
        v.push(plain(mem2(), Order::Asc, names_full));
    }
    v
}

/// Overlay configurations with pre-populated layers (C03, C05, C08, C09, C10, C12).
fn overlay_plans(tier: Tier) -> Vec<Plan> {
    let mut v = vec![];
    let a4 = alphabet(u4(), &W1, 2, true);
    let a3 = alphabet(u3(), &W1, 2, true);
    let u2 = Universe::new("U2{a,a/a}", &["/a", "/a/a"]);
    v.push(populated(mem2(), Order::Asc, a3.clone(), &u3(), false));
    v.push(populated(
        mem2(),
        Order::Desc,
        alphabet(u3(), &W1, 1, true),
        &u2,
        true,
    ));
    v.push(populated(
        phys2(),
        Order::Asc,
        alphabet(u3(), &W1, 1, true),
        &u2,
        false,
    ));
    v.push(populated(
        Cfg::Ov(vec![Cfg::Mem, Cfg::Mem, Cfg::Mem]),
        Order::Asc,
        alphabet(u3(), &W1, 1, true),
        &u2,
        false,
    ));
    // a path that is a directory in one layer and a file in another (first layer decides the type,
    // a directory merges the children of all layers in which it is a directory)
    v.push(Plan {
        cfg: Cfg::Ov(vec![Cfg::Mem, Cfg::Mem, Cfg::Mem]),
        order: Order::Asc,
        alpha: alphabet(u2.clone(), &W1, 1, true),
        inits: mixed_type_layerings(3, &u2.paths),
    });
    // sibling names that are prefixes of each other (the reserved `*_wo` names stay excluded: with
    // them the marker of `a` collides with the marker directory of `a_wo` by design)
    let wo = Universe::new("U_wo{a_wox,a_wox/b_work,c}", &["/a_wox", "/a_wox/b_work", "/c"]);
    v.push(populated(mem2(), Order::Asc, alphabet(wo.clone(), &W1, 1, true), &wo, false));
    let pfx = Universe::new("U_pfx{a,ab,a/a,a/ab}", &["/a", "/ab", "/a/a", "/a/ab"]);
    v.push(populated(
        mem2(),
        Order::Asc,
        alphabet(pfx.clone(), &W1, 1, false),
        &pfx,
        false,
    ));
    // three levels deep: entries below a lower-layer subdirectory of a removed directory
    let chain = Universe::new("U_chain3{a,a/a,a/a/a}", &["/a", "/a/a", "/a/a/a"]);
    v.push(populated(
        mem2(),
        Order::Asc,
        alphabet(chain.clone(), &W1, 1, true),
        &chain,
        false,
    ));
    // ... and with a middle layer that may lack the parent of what the bottom layer holds
    v.push(populated(
        Cfg::Ov(vec![Cfg::Mem, Cfg::Mem, Cfg::Mem]),
        Order::Asc,
        alphabet(chain.clone(), &W1, 1, false),
        &chain,
        false,
    ));
    // layers that are directories inside other filesystems, at different depths (the layer paths
    // have different lengths), used directly without an altroot in between
    let subs = Cfg::Ov(vec![Cfg::sub(Cfg::Mem, "/rw"), Cfg::sub(Cfg::Mem, "/base/v1")]);
    v.push(populated(subs.clone(), Order::Asc, alphabet(u3(), &W1, 1, true), &u2, true));
    v.push(populated(Cfg::Ov(vec![Cfg::Phys, Cfg::sub(Cfg::Phys, "/image/base")]), Order::Asc, alphabet(u3(), &W1, 1, false), &u2, false));
    // odd names (see base plans) in the layers of memory and physical overlays
    let odd = Universe::new("U_odd{.a,.a/.b,...,a\\b}", &["/.a", "/.a/.b", "/...", "/a\\b"]);
    v.push(populated(mem2(), Order::Asc, alphabet(odd.clone(), &W1, 1, false), &odd, false));
    v.push(populated(phys2(), Order::Asc, alphabet(odd.clone(), &W1, 1, false), &odd, false));
    // four levels: the parent chain that is copied up is three directories long
    let chain4 = Universe::new("U_chain4{a,a/a,a/a/a,a/a/a/a}", &["/a", "/a/a", "/a/a/a", "/a/a/a/a"]);
    v.push(populated(mem2(), Order::Asc, alphabet(chain4.clone(), &W1, 1, false), &chain4, false));
    // all layers are directories of ONE filesystem (how the crate's own tests build their overlays)
    let shared = |inner: Cfg, dirs: &[&str]| Cfg::OvShared(Box::new(inner), dirs.iter().map(|d| d.to_string()).collect());
    v.push(populated(shared(Cfg::Mem, &["/upper", "/lower"]), Order::Asc, alphabet(u3(), &W1, 2, true), &u2, true));
    v.push(populated(shared(Cfg::Phys, &["/up", "/layers/low"]), Order::Asc, alphabet(u3(), &W1, 2, false), &u2, false));
    v.push(populated(shared(Cfg::Mem, &["/u", "/m", "/l"]), Order::Asc, alphabet(u3(), &W1, 1, false), &u2, false));
    if tier == Tier::Thorough {
        v.push(populated(shared(Cfg::Mem, &["/u", "/m", "/l"]), Order::Asc, a3.clone(), &u3(), false));
        v.push(populated(shared(Cfg::Phys, &["/up", "/layers/low"]), Order::Asc, a3.clone(), &u3(), false));
        v.push(populated(Cfg::Ov(vec![Cfg::sub(Cfg::Mem, "/a/b/c"), Cfg::Mem, Cfg::sub(Cfg::Mem, "/x")]), Order::Asc, a3.clone(), &u2, false));
        v.push(populated(mem2(), Order::Asc, a4.clone(), &u3(), true));
        v.push(populated(
            mem2(),
            Order::Asc,
            alphabet(u22(), &W1, 2, true),
            &u4(),
            false,
        ));
        v.push(populated(phys2(), Order::Asc, a3.clone(), &u3(), false));
        v.push(populated(
            Cfg::Ov(vec![Cfg::Mem, Cfg::Mem, Cfg::Mem]),
            Order::Asc,
            a3.clone(),
            &u3(),
            false,
        ));
        v.push(populated(
            Cfg::Ov(vec![Cfg::Mem, Cfg::Mem, Cfg::Mem, Cfg::Mem]),
            Order::Asc,
            alphabet(u3(), &W1, 1, true),
            &u2,
            false,
        ));
        v.push(populated(
            Cfg::Ov(vec![mem2(), Cfg::Mem]),
            Order::Asc,
            a3.clone(),
            &u3(),
            false,
        ));
        v.push(populated(
            Cfg::Ov(vec![Cfg::alt(Cfg::Mem, "/Z"), Cfg::Mem]),
            Order::Asc,
            a3.clone(),
            &u3(),
            false,
        ));
        v.push(populated(
            Cfg::alt(mem2(), "/Z"),
            Order::Asc,
            a3.clone(),
            &u3(),
            false,
        ));
        v.push(populated(
            Cfg::Ov(vec![Cfg::Mem, Cfg::Phys]),
            Order::Asc,
            a3.clone(),
            &u3(),
            false,
        ));
        v.push(populated(
            Cfg::Ov(vec![Cfg::Mem, Cfg::alt(Cfg::Mem, "/Z/Y")]),
            Order::Asc,
            a3.clone(),
            &u3(),
            false,
        ));
    }
    v
}

/// Write handles kept open across other calls (C03, C05): the handle is part of the state.
fn session_plans(tier: Tier) -> Vec<Plan> {
    let us = Universe::new("U_sess{a,a/f,b}", &["/a", "/a/f", "/b"]);
    let mut al = alphabet(us.clone(), &W1, 1, true);
    al.sessions = true;
    let mut v = vec![
        plain(Cfg::Mem, Order::Asc, al.clone()),
        plain(Cfg::Phys, Order::Asc, al.clone()),
        plain(Cfg::alt(Cfg::Mem, "/Z"), Order::Asc, al.clone()),
    ];
    // overlays: primitives only in the quick tier (the composites multiply the marker states)
    let mut alp = alphabet(us.clone(), &W1, 1, tier == Tier::Thorough);
    alp.sessions = true;
    v.push(populated(
        mem2(),
        Order::Asc,
        alp,
        &Universe::new("U2{a,a/f}", &["/a", "/a/f"]),
        false,
    ));
    if tier == Tier::Thorough {
        let mut a3 = alphabet(u3(), &W2, 2, true);
        a3.sessions = true;
        v.push(plain(Cfg::Mem, Order::Desc, a3.clone()));
        v.push(plain(Cfg::alt(Cfg::Phys, "/Z"), Order::Asc, al.clone()));
        v.push(populated(
            Cfg::Ov(vec![Cfg::Mem, Cfg::Mem, Cfg::Mem]),
            Order::Asc,
            al.clone(),
            &Universe::new("U2{a,a/f}", &["/a", "/a/f"]),
            false,
        ));
        v.push(populated(
            phys2(),
            Order::Asc,
            al.clone(),
            &Universe::new("U2{a,a/f}", &["/a", "/a/f"]),
            false,
        ));
    }
    v
}

/// What a REFUSED call leaves behind: on a small universe with a chain three levels deep, a call
/// that fails without changing anything observable still opens a state of its own (one per
/// history), so every call of the alphabet is also made after every refused call, and after
/// everything that can follow it.
fn residue_plans(tier: Tier, overlays: bool, plain_too: bool) -> Vec<Plan> {
    let u = Universe::new("U_res{a,a/b,a/b/c,d}", &["/a", "/a/b", "/a/b/c", "/d"]);
    let mut al = alphabet(u.clone(), &W1, 1, tier == Tier::Thorough);
    al.residue = true;
    let mut v = vec![];
    if plain_too {
        v.push(plain(Cfg::Mem, Order::Asc, al.clone()));
        v.push(plain(Cfg::Phys, Order::Asc, al.clone()));
        v.push(plain(Cfg::alt(Cfg::Mem, "/Z"), Order::Asc, al.clone()));
    }
    if overlays {
        let mut alo = alphabet(Universe::new("U_res{a,a/b,d}", &["/a", "/a/b", "/d"]), &W1, 1, false);
        alo.residue = true;
        if tier == Tier::Thorough {
            v.push(populated(
                mem2(),
                Order::Asc,
                alo.clone(),
                &Universe::new("U2{a,a/b}", &["/a", "/a/b"]),
                false,
            ));
        } else {
            // quick: one layering (a directory with a file in the lower layer, nothing above it)
            let layers: Vec<Vec<(String, Node)>> = vec![
                vec![],
                vec![("/a".to_string(), Node::Dir), ("/a/b".to_string(), Node::File(b"l".to_vec()))],
            ];
            v.push(Plan {
                cfg: mem2(),
                order: Order::Asc,
                alpha: alo.clone(),
                inits: vec![InitSpec {
                    label: "{} over {/a/, /a/b=l}".into(),
                    init: layers.iter().enumerate().map(|(i, l)| (i, l.clone())).collect(),
                    model: Model::union_of(&layers),
                }],
            });
        }
        if tier == Tier::Thorough {
            v.push(populated(
                Cfg::Ov(vec![Cfg::Mem, Cfg::Mem, Cfg::Mem]),
                Order::Asc,
                alo.clone(),
                &Universe::new("U2{a,a/b}", &["/a", "/a/b"]),
                false,
            ));
            v.push(populated(
                phys2(),
                Order::Asc,
                alo,
                &Universe::new("U2{a,a/b}", &["/a", "/a/b"]),
                false,
            ));
        }
    }
    v
}

struct Spec {
    domain: Domain,
    mon: Monitors,
    plans: Vec<Plan>,
    observers: bool,
    rule: &'static str,
    assumptions: Vec<&'static str>,
}

fn spec_for(id: &str, tier: Tier) -> Spec {
    let typed_rule = "BFS to fixpoint over the raw states of the live system; every call of the alphabet applied to every reachable state (rebuild by replay). A (state-class, call, outcome-class) triple counts as non-trivial if the call changed the raw state or was refused for a reason other than a missing parent; distinct triples are counted.";
    let base_assume = vec![
        "finite alphabet: paths of the listed universe, file contents from the listed set, append capped",
        "state key = raw snapshot of every base filesystem (adapters hold no mutable state)",
        "listing order owned by the Sorted wrapper (ascending / descending / native)",
    ];
    match id {
        "C01" => {
            let mut plans = base_plans(tier);
            if tier == Tier::Thorough {
                plans.extend(overlay_plans(tier));
            } else {
                // pre-populated lower layers are part of C01's quantifier: one such configuration per change
                let u2 = Universe::new("U2{a,a/a}", &["/a", "/a/a"]);
                plans.push(populated(
                    mem2(),
                    Order::Asc,
                    alphabet(u3(), &W1, 2, true),
                    &u2,
                    true,
                ));
            }
            plans.extend(residue_plans(tier, true, true));
            Spec {
                domain: Domain::Typed,
                mon: Monitors {
                    model: true,
                    panics: true,
                    ..Default::default()
                },
                plans,
                observers: false,
                rule: typed_rule,
                assumptions: base_assume,
            }
        }
        "C09" => Spec {
            domain: Domain::Typed,
            mon: Monitors {
                model: true,
                panics: true,
                ..Default::default()
            },
            plans: {
                let mut p = overlay_plans(tier);
                p.extend(residue_plans(tier, true, false));
                p
            },
            observers: false,
            rule: typed_rule,
            assumptions: base_assume,
        },
        "C10" => Spec {
            domain: Domain::Typed,
            mon: Monitors {
                model: true,
                markers_hidden: true,
                ..Default::default()
            },
            plans: {
                let mut p = overlay_plans(tier);
                p.extend(residue_plans(tier, true, false));
                p
            },
            observers: false,
            rule: typed_rule,
            assumptions: base_assume,
        },
        "C03" => {
            let mut plans = base_plans(tier);
            plans.extend(overlay_plans(tier));
            plans.extend(session_plans(tier));
            plans.extend(residue_plans(tier, true, true));
            Spec {
                domain: Domain::Unrestricted {
                    root_removal: false,
                },
                mon: Monitors {
                    wellformed: true,
                    ..Default::default()
                },
                plans,
                observers: false,
                rule: typed_rule,
                assumptions: base_assume,
            }
        }
        "C05" => {
            let mut plans = base_plans(tier);
            plans.extend(overlay_plans(tier));
            plans.extend(session_plans(tier));
            plans.extend(residue_plans(tier, true, true));
            // siblings `x` and `x_wo` below a lower-layer directory: the deletion marker of `x_wo`
            // is `x_wo_wo` (seeded change C05l).  `x_wo` is only ever a FILE here: as a directory
            // its marker directory `.whiteout/d/x_wo/` is the marker file of `x` (reserved-name
            // collision by design), so the alphabet never creates a directory at a `*_wo` path
            // (`Alphabet::all_ops`) and the initial layerings with such a directory are left out.
            // For this check only: C10's bookkeeping oracle takes every `*_wo` component for a marker
            let wo2 = Universe::new("U_wo2{d,d/x,d/x_wo}", &["/d", "/d/x", "/d/x_wo"]);
            let mut wp = populated(mem2(), Order::Asc, alphabet(wo2.clone(), &W1, 1, false), &wo2, false);
            wp.inits.retain(|i| {
                i.init
                    .iter()
                    .all(|(_, l)| l.iter().all(|(q, n)| !(q.ends_with("_wo") && matches!(n, crate::model::Node::Dir))))
            });
            plans.push(wp);
            Spec {
                domain: Domain::Unrestricted {
                    root_removal: false,
                },
                mon: Monitors {
                    consistency: true,
                    ..Default::default()
                },
                plans,
                observers: false,
                rule: typed_rule,
                assumptions: base_assume,
            }
        }
        "C12" => {
            let mut plans = base_plans(tier);
            plans.extend(overlay_plans(tier));
            plans.extend(residue_plans(tier, true, true));
            Spec {
                domain: Domain::Typed,
                mon: Monitors {
                    errpaths: true,
                    model: true,
                    model_only_kinds: true,
                    ..Default::default()
                },
                plans,
                observers: false,
                rule: typed_rule,
                assumptions: base_assume,
            }
        }
        "C20" => {
            let thorough = tier == Tier::Thorough;
            // append cap 2: files of one byte (all initial lower-layer files) can still be appended
            // to, so that the overlay's copy-up runs under every fault position
            let a = |u: Universe| alphabet(u, &W1, 2, true);
            let ov = mem2();
            let mut plans = vec![
                plain(Cfg::Mem, Order::Asc, a(u22())),
                plain(Cfg::Phys, Order::Asc, a(u4())),
                plain(Cfg::alt(Cfg::Mem, "/Z"), Order::Asc, a(u4())),
                populated(
                    ov.clone(),
                    Order::Asc,
                    a(u3()),
                    &Universe::new("U2{a,a/a}", &["/a", "/a/a"]),
                    false,
                ),
            ];
            // four layers, the same file with different bytes in the two bottom ones (which layer
            // answers when the probe of the upper of the two fails?)
            {
                let layers: Vec<Vec<(String, Node)>> = vec![
                    vec![],
                    vec![("/b".to_string(), Node::Dir)],
                    vec![("/a".to_string(), Node::File(b"mm".to_vec()))],
                    vec![("/a".to_string(), Node::File(b"nnn".to_vec())), ("/b".to_string(), Node::Dir)],
                ];
                plans.push(Plan {
                    cfg: Cfg::Ov(vec![Cfg::Mem, Cfg::Mem, Cfg::Mem, Cfg::Mem]),
                    order: Order::Asc,
                    alpha: alphabet(Universe::new("U2{a,b}", &["/a", "/b"]), &W1, 3, false),
                    inits: vec![InitSpec {
                        label: "{} over {/b/} over {/a=mm} over {/a=nnn,/b/}".into(),
                        init: layers.iter().enumerate().map(|(i, l)| (i, l.clone())).collect(),
                        model: Model::union_of(&layers),
                    }],
                });
            }
            if thorough {
                plans.push(plain(Cfg::Mem, Order::Desc, a(u22())));
                plans.push(plain(Cfg::alt(Cfg::Phys, "/Z"), Order::Asc, a(u4())));
                plans.push(populated(ov.clone(), Order::Asc, a(u3()), &u3(), false));
                plans.push(populated(
                    Cfg::alt(ov.clone(), "/Z"),
                    Order::Asc,
                    a(u3()),
                    &Universe::new("U2{a,a/a}", &["/a", "/a/a"]),
                    false,
                ));
                plans.push(populated(
                    Cfg::Ov(vec![Cfg::Mem, Cfg::Mem, Cfg::Mem]),
                    Order::Asc,
                    a(u3()),
                    &Universe::new("U2{a,a/a}", &["/a", "/a/a"]),
                    false,
                ));
                plans.push(populated(
                    Cfg::Ov(vec![Cfg::Phys, Cfg::Phys]),
                    Order::Asc,
                    a(u3()),
                    &Universe::new("U2{a,a/a}", &["/a", "/a/a"]),
                    false,
                ));
            }
            Spec {
                domain: Domain::Typed,
                mon: Monitors {
                    model: true,
                    model_only_kinds: true,
                    faults: if thorough { 2 } else { 1 },
                    ..Default::default()
                },
                plans,
                observers: true,
                rule: "for every reachable state (BFS to fixpoint over the fault-free transitions) and every call of the alphabet incl. observers, walk_dir and read_to_string: one fault-free run counting the n calls made into wrapped filesystems, then one run per fault position k = 1..n (thorough: also every pair k1 < k2 for composites) with exactly that call returning an I/O error; a (state-class, call, outcome-class) triple of the fault-free run counts as non-trivial if the call changed the state or was refused for a reason other than a missing parent",
                assumptions: vec![
                    "faults are injected at the public FileSystem trait boundary of every filesystem of the stack (Wrap) and in every read / write / seek / flush call on the handles those filesystems return (each such call is one more position k)",
                    "listing order owned by the Sorted wrapper, so 'the k-th call' is deterministic",
                    "finite alphabet as for C01",
                ],
            }
        }
        "C08" => Spec {
            domain: Domain::Unrestricted {
                root_removal: false,
            },
            mon: Monitors {
                lower_immutable: true,
                ..Default::default()
            },
            plans: {
                let mut p = overlay_plans(tier);
                p.extend(
                    session_plans(tier)
                        .into_iter()
                        .filter(|p| p.cfg.has_overlay()),
                );
                p
            },
            observers: true,
            rule: typed_rule,
            assumptions: base_assume,
        },
        _ => unreachable!(),
    }
}

fn to_space(id: &str, spec: &Spec, p: Plan) -> TreeSpace {
    let mut alpha = p.alpha;
    alpha.observers = spec.observers;
    // C08: the three timestamp setters are mutating calls too ("re-times")
    alpha.setters = id == "C08";
    let mut inits = p.inits;
    if !spec.mon.model {
        // model-free monitors keep exploring through states the model would reject
        for i in &mut inits {
            i.model = None;
        }
    }
    TreeSpace::new(
        id,
        p.cfg,
        p.order,
        alpha,
        spec.domain.clone(),
        inits,
        spec.mon.clone(),
    )
}

pub fn run(ctx: &Ctx, id: &str) -> i32 {
    let spec = spec_for(id, ctx.tier);
    let info = ctx.info(
        id,
        if id == "C20" {
            "fault_enumeration"
        } else {
            "model_checking"
        },
    );
    let mut spaces = vec![];
    let mut spec = spec;
    let plans = std::mem::take(&mut spec.plans);
    for p in plans {
        spaces.push(to_space(id, &spec, p));
    }
    println!(
        "{}: {} configurations, tier {:?}",
        id,
        spaces.len(),
        ctx.tier
    );
    let lim = limits(ctx);
    let (mut stats, mut vio) = run_spaces(ctx, spaces, &lim);
    if id == "C12" {
        // trailing-slash joins are classified as invalid-path (and nothing else is)
        let (n, v) = super::pathprops::invalid_path_sweep(if ctx.tier == Tier::Thorough { 7 } else { 6 });
        println!("  [join: invalid-path classification of every string up to the bound] evaluations={} violations={}", n, v.len());
        stats.push(Stats { label: "join strings: invalid-path classification".into(), states: 1, transitions: n, fixpoint: true, ..Default::default() });
        vio.extend(v);
        // the read-only backend: every operation on every path of the embedded fixture (separator
        // variants of its names included), kinds and paths of the errors only
        let (n, v) = super::embedprops::classification_sweep();
        println!("  [EmbeddedFS: error kinds and paths of every operation on every fixture path] evaluations={} violations={}", n, v.len());
        stats.push(Stats { label: "EmbeddedFS fixture: error classification".into(), states: 1, transitions: n, fixpoint: true, ..Default::default() });
        vio.extend(crate::handle::dedupe(v));
        let (st, v) = c12_extras(ctx);
        println!(
            "  [{}] evaluations={} violations={}",
            st.label,
            st.transitions,
            v.len()
        );
        stats.push(st);
        vio.extend(v);
    }
    let cov = bfs_coverage(
        &stats,
        spec.rule,
        json!({
            "bounds": {
                "domain": format!("{:?}", spec.domain),
                "per_configuration_wall_cap_s": lim.wall.as_secs(),
                "max_states": lim.max_states,
            },
            "explanation": "explicit-state BFS over the real implementation; the reference model is advanced along every explored transition and compared with the implementation after every step",
        }),
    );
    let mut counts = std::collections::BTreeMap::new();
    for st in &stats {
        for (k, v) in &st.vio_counts {
            *counts.entry(k.clone()).or_insert(0u64) += v;
        }
    }
    finish_counts(ctx, &info, cov, &spec.assumptions, &vio, &counts)
}

/// Re-executes one replay file without the explorer and re-runs the monitors on that step.
pub fn replay(v: &serde_json::Value) -> i32 {
    let cfg = match Cfg::parse(v["configuration"].as_str().unwrap_or("")) {
        Some(c) => c,
        None => {
            eprintln!("MACHINERY: cannot parse configuration");
            return 2;
        }
    };
    let order = match v["listing_order"].as_str() {
        Some("Desc") => Order::Desc,
        Some("Native") => Order::Native,
        _ => Order::Asc,
    };
    let mut init: Init = vec![];
    for l in v["initial_layers"].as_array().cloned().unwrap_or_default() {
        let b = l["base"].as_u64().unwrap_or(0) as usize;
        let mut es = vec![];
        for e in l["entries"].as_array().cloned().unwrap_or_default() {
            let p = e["path"].as_str().unwrap_or("").to_string();
            if e["dir"].as_bool().unwrap_or(false) {
                es.push((p, Node::Dir));
            } else {
                let bytes: Vec<u8> = e["file"]
                    .as_array()
                    .map(|a| a.iter().map(|x| x.as_u64().unwrap_or(0) as u8).collect())
                    .unwrap_or_default();
                es.push((p, Node::File(bytes)));
            }
        }
        init.push((b, es));
    }
    let hist: Vec<Op> = v["history"]
        .as_array()
        .cloned()
        .unwrap_or_default()
        .iter()
        .filter_map(Op::from_json)
        .collect();
    let call = Op::from_json(&v["call"]);
    let run_once = || {
        let b = build(&cfg, order, &init);
        let mut lines = vec![];
        for op in &hist {
            let o = crate::tree::apply_sess(&b, op);
            lines.push(format!("{} -> {}", op.show(), o.short()));
        }
        if let Some(op) = &call {
            let o = crate::tree::apply_sess(&b, op);
            lines.push(format!("CALL {} -> {}", op.show(), o.short()));
        }
        let probes: Vec<String> = u22()
            .paths
            .iter()
            .chain(u_names().paths.iter())
            .cloned()
            .collect();
        let s = snapshot(&b.root, &probes);
        lines.extend(s.dump());
        for base in &b.bases {
            lines.push(format!("-- base {} (prefix {:?})", base.label, base.prefix));
            lines.extend(snapshot(&base.raw, &[]).dump());
            let _ = base.raw.as_string();
        }
        lines
    };
    let a = run_once();
    let b = run_once();
    for l in &a {
        println!("{}", l);
    }
    if a != b {
        eprintln!("MACHINERY: nondeterministic replay");
        return 2;
    }
    println!(
        "(replayed twice, identical observations) recorded summary: {}",
        v["summary"].as_str().unwrap_or("")
    );
    0
}

/// C12 beyond the state-space exploration: (a) the setters, read_to_string, is_file/is_dir on
/// every path of every tree; (b) error items of walk_dir when a directory vanishes mid-walk:
/// every (walker position i) x (removed directory q).
fn c12_extras(ctx: &Ctx) -> (Stats, Vec<Violation>) {
    use crate::api::*;
    use crate::tree::errpath_violations;
    use rayon::prelude::*;
    let thorough = ctx.tier == Tier::Thorough;
    let trees = trees_over(&u22().paths, b"x");
    let mut cfgs: Vec<(Cfg, usize, fn(TimeField) -> bool)> = vec![
        (Cfg::Mem, 0, |_| true),
        (Cfg::Phys, 0, |f| f != TimeField::Created),
        (Cfg::alt(Cfg::Mem, "/Z"), 0, |_| true),
        (mem2(), 1, |_| true),
    ];
    if thorough {
        cfgs.push((Cfg::alt(Cfg::Phys, "/Z/Y"), 0, |f| f != TimeField::Created));
        cfgs.push((Cfg::alt(mem2(), "/Z"), 1, |_| true));
        cfgs.push((Cfg::Ov(vec![Cfg::Phys, Cfg::Phys]), 1, |f| {
            f != TimeField::Created
        }));
    }
    // read_to_string on contents that are not valid UTF-8 in every way there is: the error must
    // carry the path of the call like any other
    let mut pre: Vec<Violation> = vec![];
    let mut pre_n = 0u64;
    for (cfg, _, _) in &cfgs {
        for content in [&b"caf\xc3"[..], &b"\xe2\x82"[..], &b"x\xf0\x9f\x98"[..], &b"\xff"[..], &b"a\x80b"[..], &b"\xc3\x28"[..], &b"\xed\xa0\x80"[..]] {
            let b = build(cfg, Order::Asc, &vec![]);
            let x = b.root.join("f").unwrap();
            let _ = PathApi::write_file(&x, content);
            pre_n += 1;
            match PathApi::read_to_string(&x) {
                Ok(sx) => pre.push(Violation {
                    property: "C12".into(),
                    signature: format!("{}|read_to_string|invalid-utf8|accepted", cfg.label()),
                    summary: format!("read_to_string of {:?} returned {:?}", content, sx),
                    replay: json!({"engine": "c12-extras", "configuration": cfg.label(), "content": content}),
                }),
                Err(e) => {
                    for (k, w) in errpath_violations(&e, "/f", None, false) {
                        pre.push(Violation {
                            property: "C12".into(),
                            signature: format!("{}|read_to_string|invalid-utf8|{}", cfg.label(), k),
                            summary: format!("read_to_string of a file holding {:?}: {}", content, w),
                            replay: json!({"engine": "c12-extras", "configuration": cfg.label(), "content": content}),
                        });
                    }
                }
            }
        }
    }
    let t = std::time::SystemTime::UNIX_EPOCH + std::time::Duration::from_secs(86_400);
    let work: Vec<(usize, usize)> = (0..cfgs.len())
        .flat_map(|c| (0..trees.len()).map(move |t| (c, t)))
        .collect();
    let res: Vec<(u64, Vec<Violation>)> = work
        .par_iter()
        .map(|(ci, ti)| {
            let (cfg, base, supports) = &cfgs[*ci];
            let tree = &trees[*ti];
            let mut n = 0u64;
            let mut vio = vec![];
            let init: Init = vec![(*base, tree.clone())];
            let model = Model::union_of(&[tree.clone()]).unwrap();
            let mk = |tail: String, what: String| Violation {
                property: "C12".into(),
                signature: format!("{}|{}", cfg.label(), tail),
                summary: format!("{} over tree {:?}: {}", cfg.label(), tree.iter().map(|(p, n)| format!("{}{}", p, if *n == Node::Dir { "/" } else { "" })).collect::<Vec<_>>(), what),
                replay: json!({"engine": "c12-extras", "configuration": cfg.label(), "tree": tree.iter().map(|(p, n)| json!({"path": p, "dir": *n == Node::Dir})).collect::<Vec<_>>()}),
            };
            // (a) remaining fallible methods on every path
            let b = build(cfg, Order::Asc, &init);
            let mut paths = u22().with_root();
            paths.push("/a/a/a".into());
            paths.push("/zz".into());
            for p in &paths {
                let x = at(&b.root, p).unwrap();
                let missing = !p.is_empty() && !model.exists(p) && model.is_dir(&parent_of(p));
                let cls = if model.is_dir(p) { "dir" } else if model.is_file(p) { "file" } else if missing { "absent" } else { "absent-no-parent" };
                let mut calls: Vec<(&str, R<()>, bool)> = vec![
                    ("read_to_string", PathApi::read_to_string(&x).map(|_| ()), true),
                    ("is_file", PathApi::is_file(&x).map(|_| ()), true),
                    ("is_dir", PathApi::is_dir(&x).map(|_| ()), true),
                ];
                for f in [TimeField::Created, TimeField::Modified, TimeField::Accessed] {
                    let name = match f {
                        TimeField::Created => "set_creation_time",
                        TimeField::Modified => "set_modification_time",
                        TimeField::Accessed => "set_access_time",
                    };
                    let r = x.set_time(f, t);
                    if !supports(f) {
                        // unimplemented optional operation => not-supported
                        n += 1;
                        match &r {
                            Err(e) if e.kind == Kind::NotSupported => {}
                            other => vio.push(mk(format!("{}|{}|unsupported-setter-not-NotSupported", name, cls), format!("{}({:?}) on a backend without that setter returned {:?}", name, p, other.as_ref().map_err(|e| e.kind)))),
                        }
                    }
                    // lower-only overlay entries: recorded C19 finding, nothing to classify here
                    calls.push((name, r, supports(f) && !cfg.has_overlay()));
                }
                for (name, r, classify) in calls {
                    n += 1;
                    if let Err(e) = r {
                        for (k, w) in errpath_violations(&e, p, None, false) {
                            vio.push(mk(format!("{}|{}|{}", name, cls, k), format!("{}({:?}): {}", name, p, w)));
                        }
                        if classify && missing && e.kind != Kind::NotFound {
                            vio.push(mk(format!("{}|absent|kind={}", name, e.kind.name()), format!("{}({:?}) on an entry missing from an existing directory failed with {} instead of not-found", name, p, e.kind.name())));
                        }
                    }
                }
            }
            // (b) directories that vanish mid-walk
            let dirs: Vec<String> = tree.iter().filter(|(_, n)| *n == Node::Dir).map(|(p, _)| p.clone()).collect();
            let total = model.descendants("").len();
            for q in &dirs {
                for i in 0..=total {
                    n += 1;
                    let b = build(cfg, Order::Asc, &init);
                    let r = guard(|| {
                        let mut it = b.root.walk_dir().map_err(|e| einfo(&e))?;
                        let mut items: Vec<R<String>> = vec![];
                        for _ in 0..i {
                            match it.next() {
                                Some(x) => items.push(x.map(|p| p.as_str().to_string()).map_err(|e| einfo(&e))),
                                None => break,
                            }
                        }
                        let _ = at(&b.root, q).unwrap().remove_dir_all();
                        for x in it.by_ref().take(1000) {
                            items.push(x.map(|p| p.as_str().to_string()).map_err(|e| einfo(&e)));
                        }
                        Ok::<_, EInfo>(items)
                    });
                    match r {
                        Err(m) => vio.push(mk("walk-vanishing-dir|panic".into(), format!("walk_dir with {:?} removed after {} items panicked: {}", q, i, m))),
                        Ok(Err(_)) => {}
                        Ok(Ok(items)) => {
                            for e in items.iter().filter_map(|x| x.as_ref().err()) {
                                // the error must name the vanished directory or something inside it
                                for (k, w) in errpath_violations(e, q, None, true) {
                                    vio.push(mk(format!("walk-vanishing-dir|{}", k), format!("walk_dir with {:?} removed after {} items yielded an error item: {}", q, i, w)));
                                }
                            }
                        }
                    }
                }
            }
            (n, vio)
        })
        .collect();
    let mut res = res;
    res.push((pre_n, pre));
    let mut st = Stats {
        label: "C12 extras: setters / read_to_string / is_x on every path of every tree; read_to_string of invalid UTF-8; walk_dir with a directory vanishing at every walker position".into(),
        states: (trees.len() * cfgs.len()) as u64,
        fixpoint: true,
        ..Default::default()
    };
    let mut vio = vec![];
    for (n, v) in res {
        st.transitions += n;
        vio.extend(v);
    }
    st.nontrivial = st.states;
    st.samples = vec![vec![
        "walk_dir(root) on {/a/, /a/a/, /a/b, /b} with remove_dir_all(/a) after 2 items".into(),
    ]];
    (st, crate::handle::dedupe(vio))
}
