//! C02 (MemoryFS vs PhysicalFS) and C07 (altroot vs translated twin, confinement).

use super::*;
use crate::api::*;
use crate::pair::*;
use vfs::VfsPath;

fn sync_sys(cfg: &Cfg, order: Order, prefix: &str) -> Box<dyn Sys> {
    Box::new(SyncSys {
        built: build(cfg, order, &vec![]),
        prefix: prefix.to_string(),
    })
}

/// The twin of Alt(X, P): X itself with the same directory P and the same sentinels.
fn twin_sys(x: &Cfg, order: Order, p: &str) -> Box<dyn Sys> {
    let built = build(x, order, &vec![]);
    make_altroot_dir(&built.root, p, true);
    Box::new(SyncSys {
        built,
        prefix: p.to_string(),
    })
}

fn pair_space(
    property: &str,
    label: &str,
    mode: PairMode,
    alpha: Alphabet,
    typed: bool,
    mk_a: Box<dyn Fn() -> Box<dyn Sys> + Sync + Send>,
    mk_b: Box<dyn Fn() -> Box<dyn Sys> + Sync + Send>,
) -> PairSpace {
    let ops = alpha.all_ops();
    PairSpace {
        property: property.to_string(),
        label: label.to_string(),
        mode,
        alphabet: alpha,
        ops,
        typed_domain: typed,
        mk_a,
        mk_b,
        sig_counts: Default::default(),
    }
}

pub fn run_pair_spaces(
    ctx: &Ctx,
    spaces: Vec<PairSpace>,
    lim: &Limits,
) -> (Vec<Stats>, Vec<Violation>) {
    let mut all = vec![];
    let mut vio = vec![];
    for s in spaces {
        if let Some(only) = &ctx.only_cfg {
            if !s.label.contains(only.as_str()) {
                continue;
            }
        }
        let (st, v) = bfs(&s, lim);
        println!(
            "  [{}] states={} transitions={} depth={} fixpoint={} nontrivial={} violations={}/{} ({:.1}s){}",
            st.label,
            st.states,
            st.transitions,
            st.max_depth,
            st.fixpoint,
            st.nontrivial,
            v.len(),
            st.vio_counts.values().sum::<u64>(),
            st.wall_s,
            st.capped.as_ref().map(|c| format!(" CAPPED: {}", c)).unwrap_or_default()
        );
        all.push(st);
        vio.extend(v);
    }
    (all, vio)
}

pub fn counts_of(stats: &[Stats]) -> std::collections::BTreeMap<String, u64> {
    let mut counts = std::collections::BTreeMap::new();
    for st in stats {
        for (k, v) in &st.vio_counts {
            *counts.entry(k.clone()).or_insert(0u64) += v;
        }
    }
    counts
}

fn big_pattern(n: usize) -> Vec<u8> {
    (0..n)
        .map(|i| [0xff, 0x00, 0xc3, 0x28, b'a'][i % 5])
        .collect()
}

pub fn run_c02(ctx: &Ctx) -> i32 {
    let info = ctx.info("C02", "model_checking");
    let mk = |order: Order| -> (
        Box<dyn Fn() -> Box<dyn Sys> + Sync + Send>,
        Box<dyn Fn() -> Box<dyn Sys> + Sync + Send>,
    ) {
        (
            Box::new(move || sync_sys(&Cfg::Mem, order, "")),
            Box::new(move || sync_sys(&Cfg::Phys, order, "")),
        )
    };
    let mut spaces = vec![];
    let thorough = ctx.tier == Tier::Thorough;
    let (a, b) = mk(Order::Asc);
    let w: Vec<&[u8]> = if thorough {
        vec![b"", b"x", b"\xff\x00"]
    } else {
        vec![b"", b"x"]
    };
    spaces.push(pair_space(
        "C02",
        "Mem~Phys",
        PairMode::Behaviour,
        alphabet(u22(), &w, if thorough { 5 } else { 2 }, true),
        true,
        a,
        b,
    ));
    let (a, b) = mk(Order::Desc);
    spaces.push(pair_space(
        "C02",
        "Mem~Phys(desc)",
        PairMode::Behaviour,
        alphabet(u4(), &[b"x"], 1, true),
        true,
        a,
        b,
    ));
    let (a, b) = mk(Order::Asc);
    spaces.push(pair_space(
        "C02",
        "Mem~Phys names",
        PairMode::Behaviour,
        alphabet(u_names(), &[b"x"], 1, thorough),
        true,
        a,
        b,
    ));
    // what a REFUSED call leaves behind: a refused call opens a state of its own (one per history),
    // so both backends are driven through every call after every refused call
    let (a, b) = mk(Order::Asc);
    let mut res = alphabet(
        Universe::new("U_res{a,a/b,a/b/c,d}", &["/a", "/a/b", "/a/b/c", "/d"]),
        &[b"x"],
        1,
        thorough,
    );
    res.residue = true;
    spaces.push(pair_space(
        "C02",
        "Mem~Phys after a refused call",
        PairMode::Behaviour,
        res,
        true,
        a,
        b,
    ));
    // large and non-UTF-8 contents around the 8 KiB copy buffer, through create / copy / move
    let big = big_pattern(8193);
    let big2 = big_pattern(65537);
    let (a, b) = mk(Order::Asc);
    let contents: Vec<&[u8]> = if thorough {
        vec![&big, &big2, b"\xff\x00"]
    } else {
        vec![&big, b"\xff\x00"]
    };
    let mut alpha = alphabet(
        Universe::new("U{a,b,a/a}", &["/a", "/b", "/a/a"]),
        &contents,
        1,
        true,
    );
    alpha.append = b"\xfe".to_vec();
    alpha.append_cap = 3;
    spaces.push(pair_space(
        "C02",
        "Mem~Phys big contents",
        PairMode::Behaviour,
        alpha,
        true,
        a,
        b,
    ));
    // names accepted by the host OS: every program of <= 2 (quick) / 3 (thorough) primitive calls
    let big_names = Universe::new(
        "U_big_names",
        &[
            "/.hidden",
            "/...",
            "/....",
            "/a b",
            "/~",
            "/*",
            "/\\",
            "/a\u{0301}",
            "/\u{1F600}",
            "/..a",
            "/a..",
            "/-",
            "/%41",
            "/CON",
            "/a\tb",
        ],
    );
    let (a, b) = mk(Order::Asc);
    let mut lim_names = limits(ctx);
    lim_names.max_depth = if thorough { 3 } else { 2 };
    let names_space = pair_space(
        "C02",
        "Mem~Phys host names (bounded depth)",
        PairMode::Behaviour,
        alphabet(big_names, &[b"x"], 1, false),
        true,
        a,
        b,
    );
    let lim = limits(ctx);
    let (mut stats, mut vio) = run_pair_spaces(ctx, spaces, &lim);
    let (s2, v2) = run_pair_spaces(ctx, vec![names_space], &lim_names);
    // the bounded-depth run is complete for its stated depth
    let mut s2 = s2;
    for s in &mut s2 {
        if let Some(c) = &s.capped {
            if c.starts_with("depth cap") {
                s.counters
                    .insert("bounded_depth_complete".into(), lim_names.max_depth as u64);
                s.capped = None;
                s.fixpoint = true;
            }
        }
    }
    stats.extend(s2);
    vio.extend(v2);
    // a 255-byte name (one program, outside the BFS)
    let long = "n".repeat(255);
    let a = sync_sys(&Cfg::Mem, Order::Asc, "");
    let b = sync_sys(&Cfg::Phys, Order::Asc, "");
    for op in [
        Op::CreateDir(format!("/{}", long)),
        Op::CreateFile(format!("/{}/{}", long, long), b"x".to_vec()),
        Op::RemoveDir(format!("/{}", long)),
        Op::RemoveFile(format!("/{}/{}", long, long)),
    ] {
        let (oa, _) = a.apply(&op);
        let (ob, _) = b.apply(&op);
        let probes = vec![format!("/{}", long), format!("/{}/{}", long, long)];
        if oa.is_ok() != ob.is_ok() || !a.observe(&probes).same_tree(&b.observe(&probes)) {
            vio.push(Violation {
                property: "C02".into(),
                signature: format!("Mem~Phys|{}|255-byte-name", op.name()),
                summary: format!(
                    "{} on a 255 byte name: memory {} physical {}",
                    op.name(),
                    oa.short(),
                    ob.short()
                ),
                replay: json!({"engine": "pair", "pair": "Mem~Phys 255-byte name"}),
            });
        }
    }
    // every public way of constructing the in-memory backend gives the same (empty) filesystem:
    // `new()`, `default()`, `VfsPath::from(..)` - all programs of <= 2 calls compared with `new()`
    {
        let alpha = alphabet(u4(), &[b"x"], 1, true);
        // (copying or moving a directory into its own subtree does not terminate: documented, excluded)
        let ops: Vec<Op> = alpha
            .all_ops()
            .into_iter()
            .filter(|o| match (o, o.dest()) {
                (Op::CopyDir(p, _) | Op::MoveDir(p, _) | Op::CopyFile(p, _) | Op::MoveFile(p, _), Some(q)) => !(crate::ops::is_within(q, p) && p != q),
                _ => true,
            })
            .collect();
        let ctors: Vec<(&str, Box<dyn Fn() -> VfsPath + Sync>)> = vec![
            ("MemoryFS::default()", Box::new(|| VfsPath::new(vfs::MemoryFS::default()))),
            ("VfsPath::from(MemoryFS::new())", Box::new(|| VfsPath::from(vfs::MemoryFS::new()))),
            ("VfsPath::from(MemoryFS::default())", Box::new(|| VfsPath::from(vfs::MemoryFS::default()))),
        ];
        let mut cs = Stats { label: "constructors of the in-memory backend: programs of <= 2 calls against MemoryFS::new()".into(), fixpoint: true, states: 1, ..Default::default() };
        let probes = u4().paths.clone();
        for (label, mk) in &ctors {
            let mut programs: Vec<Vec<&Op>> = vec![vec![]];
            for a in &ops {
                programs.push(vec![a]);
            }
            for a in ops.iter().filter(|o| o.is_primitive() || matches!(o, Op::CreateDirAll(_))) {
                for b in &ops {
                    programs.push(vec![a, b]);
                }
            }
            let mut bad = 0;
            for prog in &programs {
                let (x, y) = (mk(), VfsPath::new(vfs::MemoryFS::new()));
                let mut differs = None;
                for op in prog {
                    let (ox, oy) = (apply(&x, op), apply(&y, op));
                    cs.transitions += 1;
                    if ox.class() != oy.class() {
                        differs = Some(format!("{}: {} vs {}", op.show(), ox.short(), oy.short()));
                        break;
                    }
                }
                if differs.is_none() && !crate::snapshot::snapshot(&x, &probes).same_tree(&crate::snapshot::snapshot(&y, &probes)) {
                    differs = Some("observable trees differ".into());
                }
                if let Some(d) = differs {
                    bad += 1;
                    if bad <= 2 {
                        vio.push(Violation {
                            property: "C02".into(),
                            signature: format!("Mem|constructor|{}|behaves-differently-from-new", label),
                            summary: format!("a filesystem built with {} after {:?}: {}", label, prog.iter().map(|o| o.show()).collect::<Vec<_>>(), d),
                            replay: json!({"engine": "constructors", "constructor": label, "program": prog.iter().map(|o| o.to_json()).collect::<Vec<_>>()}),
                        });
                    }
                }
            }
        }
        println!("  [{}] calls={}", cs.label, cs.transitions);
        stats.push(cs);
    }
    // write sessions with several write / seek / flush calls on one handle: both backends against
    // the same cursor model, hence against each other (the BFS above only has whole sessions)
    let depth = if thorough { 5 } else { 4 };
    let mut ws = Stats { label: format!("Mem~Phys write/seek/flush scripts of depth {} on create handles, published bytes after every flush and after drop", depth), fixpoint: true, states: 1, ..Default::default() };
    for b in [crate::handle::HB::Mem, crate::handle::HB::Phys] {
        for prior in [None, Some(&b"abc"[..])] {
            // (the physical backend is the reference here: one step less keeps the run short)
            let d = if b.is_phys() { depth - 1 } else { depth };
            let (st, v) = crate::handle::writer_scripts("C02", b, prior, false, d);
            ws.transitions += st.steps;
            ws.nontrivial += st.classes.len() as u64;
            vio.extend(v);
        }
    }
    // ... and read / seek scripts on read handles of both backends
    for b in [crate::handle::HB::Mem, crate::handle::HB::Phys] {
        for c in [&b"a"[..], &b"abcd"[..]] {
            let (st, v) = crate::handle::reader_scripts("C02", b, c, 3, &|l: &crate::handle::Live| l.file.open_file().map_err(|e| e.to_string()));
            ws.transitions += st.steps;
            ws.nontrivial += st.classes.len() as u64;
            vio.extend(v);
        }
    }
    println!("  [{}; read/seek scripts of depth 3] steps={}", ws.label, ws.transitions);
    stats.push(ws);
    let counts = counts_of(&stats);
    let cov = bfs_coverage(
        &stats,
        "product BFS: the same history replayed on a fresh MemoryFS and a fresh PhysicalFS (tmpfs); joint raw key; every call of the PAIR alphabet on every reachable joint state; non-trivial = the call changed the joint state or was refused for a reason other than a missing parent",
        json!({"oracle": "the other backend: Ok/Err agreement, not-found and already-exists classes, full observable snapshot (types, lengths, bytes, listings, walks)"}),
    );
    finish_counts(ctx, &info, cov, &["host filesystem is tmpfs (/dev/shm)", "timestamps, message texts and other I/O error kinds are not compared (as the property says)"], &vio, &counts)
}

// ---------------------------------------------------------------------------------------
// C07

fn alt_pair(x: Cfg, p: &str, order: Order, alpha: Alphabet) -> PairSpace {
    let label = format!(
        "Alt({},{})~twin",
        x.label(),
        if p.is_empty() { "\"\"" } else { p }
    );
    let (x1, p1) = (x.clone(), p.to_string());
    let (x2, p2) = (x.clone(), p.to_string());
    pair_space(
        "C07",
        &label,
        PairMode::AltTwin { p: p.to_string() },
        alpha,
        true,
        Box::new(move || sync_sys(&Cfg::alt(x1.clone(), &p1), order, "")),
        Box::new(move || twin_sys(&x2, order, &p2)),
    )
}

/// Write handles obtained through an altroot against handles obtained on P/q of a twin: every
/// script of `depth` write / write_all / seek / flush steps, call by call; after every step the
/// step's result and the bytes the UNDERLYING filesystem shows at P/q must be the same on both
/// sides (an adapter that buffers, reorders or delays writes is not an exact re-rooting).
fn altroot_handle_lockstep(depth: usize, vio: &mut Vec<Violation>) -> u64 {
    use crate::handle::{do_wstep_pub, writer_steps, WStep};
    use rayon::prelude::*;
    let steps = writer_steps();
    let n = steps.len();
    let total = n.pow(depth as u32);
    let mut work: Vec<(Cfg, Option<&'static [u8]>, bool, usize)> = vec![];
    for x in [Cfg::Phys, Cfg::Mem] {
        for (prior, append) in [(None, false), (Some(&b"abc"[..]), false), (Some(&b"abc"[..]), true)] {
            for code in 0..total {
                work.push((x.clone(), prior, append, code));
            }
        }
    }
    let res: Vec<Option<Violation>> = work
        .par_iter()
        .map(|(x, prior, append, code)| {
            let mut script: Vec<WStep> = vec![];
            let mut c = *code;
            for _ in 0..depth {
                script.push(steps[c % n].clone());
                c /= n;
            }
            let init: Init = match prior {
                Some(b) => vec![(0, vec![("/f".to_string(), Node::File(b.to_vec()))])],
                None => vec![],
            };
            let a = build(&Cfg::alt(x.clone(), "/Z"), Order::Asc, &init);
            let t = build(x, Order::Asc, &vec![]);
            make_altroot_dir(&t.root, "/Z", true);
            if let Some(b) = prior {
                let _ = PathApi::write_file(&t.root.join("Z/f").unwrap(), b);
            }
            let (pa, pt) = (a.root.join("f").unwrap(), t.root.join("Z/f").unwrap());
            let (ua, ut) = (a.bases[0].raw.join("Z/f").unwrap(), t.bases[0].raw.join("Z/f").unwrap());
            let open = |p: &VfsPath| if *append { p.append_file() } else { p.create_file() };
            let (mut ha, mut ht) = match (open(&pa), open(&pt)) {
                (Ok(x), Ok(y)) => (x, y),
                _ => return None,
            };
            for (i, s) in script.iter().enumerate() {
                let (ra, rt) = (do_wstep_pub(ha.as_mut(), s), do_wstep_pub(ht.as_mut(), s));
                let (oa, ot) = (PathApi::read_all(&ua).ok(), PathApi::read_all(&ut).ok());
                if ra != rt || oa != ot {
                    return Some(Violation {
                        property: "C07".into(),
                        signature: format!("Alt({},/Z)~twin|{}-handle|{}", x.label(), if *append { "append" } else { "create" }, if ra != rt { "step-results-differ" } else { "underlying-bytes-differ-while-the-handle-is-open" }),
                        summary: format!("{} handle through Alt({},/Z) vs the same handle on /Z/f (prior content {:?}), script {:?}: step {:?} returned {:?} vs {:?}; the underlying filesystem shows {:?} vs {:?}", if *append { "append" } else { "create" }, x.label(), prior.map(String::from_utf8_lossy), &script[..=i], s, ra, rt, oa.as_ref().map(|b| String::from_utf8_lossy(b).into_owned()), ot.as_ref().map(|b| String::from_utf8_lossy(b).into_owned())),
                        replay: json!({"engine": "altroot-handle-lockstep", "underlying": x.label(), "append": append, "prior": prior, "script": format!("{:?}", &script[..=i])}),
                    });
                }
            }
            drop(ha);
            drop(ht);
            let (oa, ot) = (PathApi::read_all(&ua).ok(), PathApi::read_all(&ut).ok());
            if oa != ot {
                return Some(Violation {
                    property: "C07".into(),
                    signature: format!("Alt({},/Z)~twin|{}-handle|underlying-bytes-differ-after-drop", x.label(), if *append { "append" } else { "create" }),
                    summary: format!("script {:?}: after the drop the underlying filesystem shows {:?} vs {:?}", script, oa, ot),
                    replay: json!({"engine": "altroot-handle-lockstep", "underlying": x.label(), "append": append, "prior": prior, "script": format!("{:?}", script)}),
                });
            }
            None
        })
        .collect();
    vio.extend(crate::handle::dedupe(res.into_iter().flatten().collect()));
    work.len() as u64
}

/// Join arguments built from <= k tokens of a hostile token set, glued with '/' or with the
/// foreign separator '\\', with / without a leading separator.
fn hostile_args(k: usize) -> Vec<String> {
    let toks = ["..", ".", "a", "Z", "S", ""];
    let seps = ["/", "\\"];
    let mut out: Vec<String> = vec![];
    let mut level: Vec<String> = vec![String::new()];
    for depth in 0..k {
        let mut next = vec![];
        for base in &level {
            for t in toks {
                if depth == 0 {
                    next.push(t.to_string());
                } else {
                    for sep in seps {
                        // the foreign separator only in the shorter strings (keeps the sweep small)
                        if sep == "\\" && depth >= 3 {
                            continue;
                        }
                        next.push(format!("{}{}{}", base, sep, t));
                    }
                }
            }
        }
        out.extend(next.iter().cloned());
        out.extend(next.iter().map(|x| format!("/{}", x)));
        out.extend(
            next.iter()
                .filter(|x| !x.contains('/'))
                .map(|x| format!("\\{}", x)),
        );
        level = next;
    }
    // a few other odd spellings of "go up"
    for odd in [
        "%2e%2e/S",
        "..%2fS",
        "...",
        "..../S",
        ". ./S",
        ".. /S",
        " ../S",
        "..\u{2215}S",
        "\u{2025}/S",
        "a/..\\..\\S",
        "..\\..\\..\\S/f",
    ] {
        out.push(odd.to_string());
        out.push(format!("a/{}", odd));
    }
    // the absolute host path of a directory next to the PhysicalFS root, spelled as a VFS path
    // (substituted per run): harmless as long as every host path is built below the root
    out.push("@OUTER@/escaped".to_string());
    out.push("/@OUTER@/escaped".to_string());
    out.push("@OUTER@/a/escaped".to_string());
    out.sort();
    out.dedup();
    out
}

/// OS-level listing of a directory tree excluding one subtree.
fn os_tree(dir: &std::path::Path, exclude: &std::path::Path, out: &mut Vec<String>) {
    if let Ok(rd) = std::fs::read_dir(dir) {
        let mut es: Vec<_> = rd.flatten().collect();
        es.sort_by_key(|e| e.file_name());
        for e in es {
            let p = e.path();
            if p == exclude {
                out.push(format!("{} <root>", p.display()));
                continue;
            }
            let md = std::fs::symlink_metadata(&p);
            match md {
                Ok(m) if m.is_dir() => {
                    out.push(format!("{} dir", p.display()));
                    os_tree(&p, exclude, out);
                }
                Ok(m) => out.push(format!(
                    "{} file {} {:?}",
                    p.display(),
                    m.len(),
                    std::fs::read(&p).ok()
                )),
                Err(_) => out.push(format!("{} ?", p.display())),
            }
        }
    }
}

/// Every hostile join argument x every call kind, from a few representative states: the calls
/// must stay below P (recorded path arguments) and leave everything outside P untouched.
fn hostile_sweep(
    cfg: &Cfg,
    p: &str,
    k: usize,
    vio: &mut Vec<Violation>,
    counters: &mut std::collections::BTreeMap<String, u64>,
) -> u64 {
    let states: Vec<Vec<Op>> = vec![
        vec![],
        vec![
            Op::CreateDir("/a".into()),
            Op::CreateFile("/a/a".into(), b"x".to_vec()),
        ],
        vec![
            Op::CreateFile("/a".into(), b"x".to_vec()),
            Op::CreateDir("/Z".into()),
            Op::CreateDir("/S".into()),
        ],
    ];
    let args = hostile_args(k);
    let kinds = [
        "create_dir",
        "create_dir_all",
        "create_file",
        "append_file",
        "remove_file",
        "remove_dir",
        "remove_dir_all",
        "exists",
        "metadata",
        "read_dir",
        "open_file",
        "walk_dir",
        "copy_file_to",
        "copy_file_from",
        "move_file_to",
        "copy_dir_to",
        "move_dir_from",
        "set_modification_time",
    ];
    let mut runs = 0u64;
    let work: Vec<(usize, &String)> = (0..states.len())
        .flat_map(|s| args.iter().map(move |a| (s, a)))
        .collect();
    use rayon::prelude::*;
    let results: Vec<(u64, Vec<Violation>, u64)> = work
        .par_iter()
        .map(|(si, arg)| {
            let mut local = vec![];
            let mut n = 0u64;
            let mut invalid = 0u64;
            for kind in kinds {
                let b = build(cfg, Order::Asc, &vec![]);
                for op in &states[*si] {
                    let _ = apply(&b.root, op);
                }
                let outer = b.phys_outer_dirs();
                for o in &outer {
                    let _ = std::fs::write(o.join("outer-sentinel"), b"outer");
                    let _ = std::fs::create_dir_all(o.join("Z"));
                    let _ = std::fs::create_dir_all(o.join("a"));
                    let _ = std::fs::write(o.join("S"), b"outer S");
                }
                let arg: String = if arg.contains("@OUTER@") {
                    match outer.first() {
                        Some(o) => arg.replace("@OUTER@", o.to_string_lossy().trim_start_matches('/')),
                        None => continue,
                    }
                } else {
                    arg.to_string()
                };
                let arg = &arg;
                let os_before: Vec<String> = outer.iter().flat_map(|o| { let mut v = vec![]; os_tree(o, &o.join("root"), &mut v); v }).collect();
                let raw_before: Vec<String> = b.outside_altroot(p);
                b.ctl.arm([0, 0]);
                let r = guard(|| {
                    let target = match b.root.join(arg.as_str()) {
                        Ok(t) => t,
                        Err(e) => return Err(einfo(&e)),
                    };
                    let other = b.root.join("a").unwrap();
                    let t = std::time::SystemTime::UNIX_EPOCH + std::time::Duration::from_secs(1_000_000);
                    let _ = match kind {
                        "create_dir" => target.create_dir().map_err(|e| einfo(&e)),
                        "create_dir_all" => target.create_dir_all().map_err(|e| einfo(&e)),
                        "create_file" => PathApi::write_file(&target, b"h"),
                        "append_file" => PathApi::append(&target, b"h"),
                        "remove_file" => target.remove_file().map_err(|e| einfo(&e)),
                        "remove_dir" => {
                            // removing the root itself is the same as removing P: excluded
                            if target.is_root() {
                                Ok(())
                            } else {
                                target.remove_dir().map_err(|e| einfo(&e))
                            }
                        }
                        "remove_dir_all" => {
                            if target.is_root() {
                                Ok(())
                            } else {
                                target.remove_dir_all().map_err(|e| einfo(&e))
                            }
                        }
                        "exists" => target.exists().map(|_| ()).map_err(|e| einfo(&e)),
                        "metadata" => target.metadata().map(|_| ()).map_err(|e| einfo(&e)),
                        "read_dir" => PathApi::read_dir(&target).map(|_| ()),
                        "open_file" => PathApi::read_all(&target).map(|_| ()),
                        "walk_dir" => PathApi::walk(&target).map(|_| ()),
                        "copy_file_to" => other.copy_file(&target).map_err(|e| einfo(&e)),
                        "copy_file_from" => target.copy_file(&b.root.join("hc").unwrap()).map_err(|e| einfo(&e)),
                        "move_file_to" => other.move_file(&target).map_err(|e| einfo(&e)),
                        "copy_dir_to" => {
                            // (copying a directory into its own subtree does not terminate: documented)
                            if target.as_str() == "/a" || target.as_str().starts_with("/a/") {
                                Ok(())
                            } else {
                                other.copy_dir(&target).map(|_| ()).map_err(|e| einfo(&e))
                            }
                        }
                        "move_dir_from" => {
                            if target.is_root() {
                                Ok(())
                            } else {
                                target.move_dir(&b.root.join("hm").unwrap()).map_err(|e| einfo(&e))
                            }
                        }
                        "set_modification_time" => target.set_modification_time(t).map_err(|e| einfo(&e)),
                        _ => unreachable!(),
                    };
                    Ok(())
                });
                let log = b.ctl.disarm();
                n += 1;
                let runaway = b.ctl.runaway.load(std::sync::atomic::Ordering::SeqCst);
                let mk = |tail: &str, what: String| Violation {
                    property: "C07".into(),
                    signature: format!("{}|hostile-join|{}|{}", cfg.label(), kind, tail),
                    summary: format!("join({:?}) then {} on {} from state #{}: {}", arg, kind, cfg.label(), si, what),
                    replay: json!({"engine": "hostile", "configuration": cfg.label(), "state": states[*si].iter().map(|o| o.show()).collect::<Vec<_>>(), "join_argument": arg, "call": kind}),
                };
                if runaway {
                    local.push(mk("runaway", format!("made more than {} calls into the underlying filesystem (does not terminate)", CALL_HORIZON)));
                }
                match r {
                    Err(m) => local.push(mk("panic", format!("panicked: {}", m))),
                    Ok(Err(e)) => {
                        invalid += 1;
                        if e.kind != Kind::InvalidPath {
                            local.push(mk("join-error-kind", format!("join failed with {}", e.display)));
                        }
                    }
                    Ok(Ok(())) => {}
                }
                let inside = |x: &str| p.is_empty() || x == p || x.starts_with(&format!("{}/", p));
                for e in &log {
                    let target_is_root = b.root.join(arg.as_str()).map(|t| t.is_root()).unwrap_or(false);
                    if target_is_root && !is_mutating(e.method) && e.path == parent_of(p) {
                        continue; // a call on the altroot's root looks at P's parent like the same call on P
                    }
                    if e.node == "0.0" && (!inside(&e.path) || !e.dest.as_deref().map(inside).unwrap_or(true)) {
                        local.push(mk("call-outside-altroot", format!("underlying call {}({:?}) is outside {:?}", e.method, e.path, p)));
                    }
                }
                let raw_after: Vec<String> = b.outside_altroot(p);
                if raw_before != raw_after {
                    local.push(mk("changed-outside-altroot", format!("entries outside {:?} changed: {:?} -> {:?}", p, raw_before, raw_after)));
                }
                let os_after: Vec<String> = outer.iter().flat_map(|o| { let mut v = vec![]; os_tree(o, &o.join("root"), &mut v); v }).collect();
                if os_before != os_after {
                    local.push(mk("changed-outside-physical-root", format!("OS entries outside the PhysicalFS root changed: {:?} -> {:?}", os_before, os_after)));
                }
            }
            (n, local, invalid)
        })
        .collect();
    for (n, v, invalid) in results {
        runs += n;
        *counters
            .entry("hostile:join-rejected-as-invalid".into())
            .or_insert(0) += invalid;
        vio.extend(v);
    }
    *counters
        .entry(format!("hostile:{}:arguments", cfg.label()))
        .or_insert(0) += args.len() as u64;
    runs
}

fn line_below(line: &str, p: &str) -> bool {
    if p.is_empty() {
        return true;
    }
    let quoted = format!("{:?}", p);
    let q = &quoted[..quoted.len() - 1];
    line.starts_with(&format!("{}\"", q)) || line.starts_with(&format!("{}/", q))
}

pub fn run_c07(ctx: &Ctx) -> i32 {
    let info = ctx.info("C07", "model_checking");
    let thorough = ctx.tier == Tier::Thorough;
    let a22 = alphabet(u22(), &[b"x"], 1, true);
    let a4 = alphabet(u4(), &[b"x"], 1, true);
    let mut spaces = vec![];
    spaces.push(alt_pair(Cfg::Mem, "/Z", Order::Asc, a22.clone()));
    spaces.push(alt_pair(Cfg::Mem, "/Z/Y", Order::Desc, a4.clone()));
    // composites over multi-byte names through the altroot (byte offsets in its own fast paths)
    let mb = Universe::new("U_mb{é,é/a,éa,éa/é}", &["/é", "/é/a", "/éa", "/éa/é"]);
    spaces.push(alt_pair(Cfg::Mem, "/Z", Order::Asc, alphabet(mb.clone(), &[b"x"], 1, true)));
    spaces.push(alt_pair(Cfg::Mem, "/é", Order::Asc, alphabet(u_names_small(), &[b"x"], 1, true)));
    // the three timestamp setters through the altroot (root included) against the twin
    let mut a_set = alphabet(u3(), &[b"x"], 1, false);
    a_set.setters = true;
    spaces.push(alt_pair(Cfg::Mem, "/Z", Order::Asc, a_set.clone()));
    spaces.push(alt_pair(Cfg::Mem, "", Order::Asc, a_set.clone()));
    spaces.push(alt_pair(Cfg::Phys, "/Z/Y", Order::Asc, a_set.clone()));
    spaces.push(alt_pair(Cfg::Phys, "/Z", Order::Asc, a4.clone()));
    // what a REFUSED call leaves behind in the adapter (one refused call per history is a state of
    // its own; everything the alphabet offers is then run after it)
    let mut res = alphabet(
        Universe::new("U_res{a,a/b,d}", &["/a", "/a/b", "/d"]),
        &[b"x"],
        1,
        thorough,
    );
    res.residue = true;
    spaces.push(alt_pair(Cfg::Mem, "/Z", Order::Asc, res.clone()));
    spaces.push(alt_pair(Cfg::Phys, "/Z", Order::Asc, res.clone()));
    // odd characters in component names (foreign separator, leading dots, blanks)
    let odd = Universe::new(
        "U_odd",
        &["/a", "/a\\b", "/..a", "/a b", "/a/a\\b", "/a/.. "],
    );
    spaces.push(alt_pair(
        Cfg::Mem,
        "/Z",
        Order::Asc,
        alphabet(odd.clone(), &[b"x"], 1, false),
    ));
    // an altroot directory whose own name is a prefix of the names below it (and of a sibling)
    spaces.push(alt_pair(
        Cfg::Mem,
        "/a",
        Order::Asc,
        alphabet(u_names(), &[b"x"], 1, false),
    ));
    spaces.push(alt_pair(
        Cfg::Phys,
        "/a/a",
        Order::Desc,
        alphabet(u_names_small(), &[b"x"], 1, false),
    ));
    if thorough {
        spaces.push(alt_pair(
            Cfg::Mem,
            "/a",
            Order::Asc,
            alphabet(u_names(), &[b"x"], 1, true),
        ));
        spaces.push(alt_pair(
            Cfg::Phys,
            "/Z/Y",
            Order::Asc,
            alphabet(odd.clone(), &[b"x"], 1, true),
        ));
        spaces.push(alt_pair(Cfg::Mem, "", Order::Asc, a22.clone()));
        spaces.push(alt_pair(
            Cfg::Mem,
            "/Z/Y/X",
            Order::Asc,
            alphabet(u22(), &[b"", b"x"], 3, true),
        ));
        spaces.push(alt_pair(Cfg::Phys, "/Z/Y", Order::Asc, a22.clone()));
        spaces.push(alt_pair(
            Cfg::Ov(vec![Cfg::Mem, Cfg::Mem]),
            "/Z",
            Order::Asc,
            a4.clone(),
        ));
        spaces.push(alt_pair(
            Cfg::alt(Cfg::Mem, "/W"),
            "/Z",
            Order::Asc,
            a22.clone(),
        ));
    }
    let lim = limits(ctx);
    let (mut stats, mut vio) = run_pair_spaces(ctx, spaces, &lim);
    // hostile join arguments
    let mut counters = std::collections::BTreeMap::new();
    let k = if thorough { 4 } else { 3 };
    let mut runs = 0;
    let t0 = std::time::Instant::now();
    let mut cfgs = vec![
        Cfg::alt(Cfg::Mem, "/Z"),
        Cfg::alt(Cfg::Phys, "/Z"),
        Cfg::Phys,
    ];
    if thorough {
        cfgs.push(Cfg::alt(Cfg::Mem, "/Z/Y"));
        cfgs.push(Cfg::alt(Cfg::alt(Cfg::Mem, "/W"), "/Z"));
        cfgs.push(Cfg::alt(Cfg::Ov(vec![Cfg::Mem, Cfg::Mem]), "/Z"));
    }
    for cfg in &cfgs {
        let p = match cfg {
            Cfg::Alt(_, p) => p.clone(),
            _ => String::new(),
        };
        let n = hostile_sweep(cfg, &p, k, &mut vio, &mut counters);
        println!(
            "  [hostile joins on {}] runs={} ({:.1}s)",
            cfg.label(),
            n,
            t0.elapsed().as_secs_f64()
        );
        runs += n;
    }
    let mut hs = Stats {
        label: format!("hostile join arguments (<= {} tokens of {{.., ., a, Z, S, \"\"}} glued with '/' or '\\', with/without leading separator, plus odd spellings) x 18 call kinds x 3 states", k),
        states: 3,
        transitions: runs,
        fixpoint: true,
        nontrivial: counters.values().sum::<u64>().min(runs),
        counters,
        ..Default::default()
    };
    hs.samples = vec![hostile_args(2).into_iter().take(12).collect()];
    stats.push(hs);
    // write handles through the altroot against the same handles on P/q, call by call
    let hd = if thorough { 4 } else { 3 };
    let hn = altroot_handle_lockstep(hd, &mut vio);
    println!("  [write handles through Alt(X,/Z) vs handles on /Z/f of a twin, scripts of depth {}] scripts={}", hd, hn);
    stats.push(Stats {
        label: format!("altroot write handles against twin handles, every script of {} steps, results and underlying bytes after every step", hd),
        states: 1,
        transitions: hn * hd as u64,
        fixpoint: true,
        ..Default::default()
    });
    let counts = counts_of(&stats);
    let cov = bfs_coverage(
        &stats,
        "product BFS of Alt(Recorder(X),P) and the twin X' (same recipe, same P, same sentinels) with op(q) on the altroot and op(P/q) on the twin; plus an exhaustive sweep of hostile join arguments x call kinds; non-trivial = joint state changed or refused for a reason other than a missing parent",
        json!({"oracle": "twin filesystem (outcome class, error kind, raw snapshots, sub-tree view) + recorded path arguments below P + byte-identical snapshot outside P / outside the PhysicalFS root (OS level)"}),
    );
    finish_counts(
        ctx,
        &info,
        cov,
        &[
            "symlinks are out of scope (as the property says)",
            "PhysicalFS on tmpfs",
        ],
        &vio,
        &counts,
    )
}
