//! One driver per property + shared helpers.

use crate::config::*;
use crate::explore::*;
use crate::model::*;
use crate::ops::*;
use crate::report::*;
use crate::tree::*;
use crate::{Ctx, Tier};
use serde_json::{json, Value};
use std::time::Duration;

pub mod asyncprops;
pub mod embedprops;
pub mod handleprops;
pub mod pairprops;
pub mod panicprops;
pub mod pathprops;
pub mod schedprops;
pub mod timeprops;
pub mod treeprops;
pub mod xferprops;

pub fn run_check(ctx: &Ctx, id: &str) -> i32 {
    match id {
        "C01" | "C03" | "C05" | "C08" | "C09" | "C10" | "C12" | "C20" => treeprops::run(ctx, id),
        "C04" => handleprops::run_c04(ctx),
        "C14" => handleprops::run_c14(ctx),
        "C02" => pairprops::run_c02(ctx),
        "C15" => asyncprops::run_c15(ctx),
        "C16" => schedprops::run_c16(ctx),
        "C17" => schedprops::run_c17(ctx),
        "C13" => panicprops::run_c13(ctx),
        "C11" => xferprops::run_c11(ctx),
        "C19" => timeprops::run_c19(ctx),
        "C18" => embedprops::run_c18(ctx),
        "C06" => pathprops::run_c06(ctx),
        "C07" => pairprops::run_c07(ctx),
        _ => {
            eprintln!("unknown property {}", id);
            2
        }
    }
}

pub fn run_replay(_ctx: &Ctx, file: &str) -> i32 {
    let txt = match std::fs::read_to_string(file) {
        Ok(t) => t,
        Err(e) => {
            eprintln!("MACHINERY: cannot read {}: {}", file, e);
            return 2;
        }
    };
    let v: Value = match serde_json::from_str(&txt) {
        Ok(v) => v,
        Err(e) => {
            eprintln!("MACHINERY: {} is not JSON: {}", file, e);
            return 2;
        }
    };
    match v["engine"].as_str() {
        Some("tree") => treeprops::replay(&v),
        other => {
            // the other engines' replay files are self-describing (program / script / plan /
            // schedule, expected vs observed); replaying means re-running the deterministic check
            // that produced them and looking for the same signature again
            let prop = v["property"].as_str().unwrap_or("").to_string();
            let sig = v["signature"].as_str().unwrap_or("").to_string();
            println!(
                "replay of engine {:?}: re-running check {} and looking for signature {:?}",
                other, prop, sig
            );
            println!("recorded: {}", v["summary"].as_str().unwrap_or(""));
            let code = run_check(_ctx, &prop);
            let again = std::fs::read_to_string(file)
                .ok()
                .and_then(|t| serde_json::from_str::<Value>(&t).ok())
                .map(|w| w["signature"] == v["signature"])
                .unwrap_or(false);
            println!(
                "check exit code {}; replay file rewritten with the same signature: {}",
                code,
                again && code == 1
            );
            code
        }
    }
}

// ---------------------------------------------------------------------------------------
// universes and alphabets

pub fn u22() -> Universe {
    Universe::grid(&["a", "b"], 2)
}
pub fn u23() -> Universe {
    Universe::grid(&["a", "b"], 3)
}
pub fn u32() -> Universe {
    Universe::grid(&["a", "b", "c"], 2)
}
pub fn u4() -> Universe {
    Universe::new("U4{a,a/a,b,b/a}", &["/a", "/a/a", "/b", "/b/a"])
}
pub fn u3() -> Universe {
    Universe::new("U3{a,a/a,b}", &["/a", "/a/a", "/b"])
}
pub fn u_names() -> Universe {
    Universe::new(
        "U_names",
        &[
            "/a", "/ab", "/a.b", "/é", "/a/a", "/a/ab", "/a.b/é", "/é/a.b",
        ],
    )
}

pub fn u_names_small() -> Universe {
    Universe::new(
        "U_names_small",
        &["/a", "/ab", "/a.b", "/é", "/a/a", "/a.b/é"],
    )
}

pub fn alphabet(u: Universe, contents: &[&[u8]], append_cap: usize, composites: bool) -> Alphabet {
    Alphabet {
        universe: u,
        contents: contents.iter().map(|c| c.to_vec()).collect(),
        append: b"y".to_vec(),
        append_cap,
        composites,
        observers: false,
        setters: false,
        sessions: false,
        residue: false,
    }
}

pub fn limits(ctx: &Ctx) -> Limits {
    match ctx.tier {
        Tier::Quick => Limits {
            wall: Duration::from_secs(40),
            max_states: 400_000,
            max_depth: 64,
        },
        // (VFSMC_THOROUGH_WALL_S shortens the per-configuration cap for a faster pass over every
        // thorough configuration; the cap that applied is part of the evidence)
        Tier::Thorough => Limits {
            wall: Duration::from_secs(
                std::env::var("VFSMC_THOROUGH_WALL_S")
                    .ok()
                    .and_then(|v| v.parse().ok())
                    .unwrap_or(900),
            ),
            max_states: 5_000_000,
            max_depth: 64,
        },
    }
}

pub fn empty_init(model: bool) -> Vec<InitSpec> {
    vec![InitSpec {
        label: "empty".into(),
        init: vec![],
        model: if model { Some(Model::new()) } else { None },
    }]
}

/// All well-formed trees over `paths` (prefix closed, parents first) with one file content.
pub fn trees_over(paths: &[String], content: &[u8]) -> Vec<Vec<(String, Node)>> {
    let mut acc: Vec<Vec<(String, Node)>> = vec![vec![]];
    for p in paths {
        let mut next = vec![];
        for t in &acc {
            let par = parent_of(p);
            let parent_ok = par.is_empty() || t.iter().any(|(q, n)| *q == par && *n == Node::Dir);
            next.push(t.clone());
            if parent_ok {
                let mut a = t.clone();
                a.push((p.clone(), Node::Dir));
                next.push(a);
                let mut b = t.clone();
                b.push((p.clone(), Node::File(content.to_vec())));
                next.push(b);
            }
        }
        acc = next;
    }
    acc
}

fn tree_label(t: &[(String, Node)]) -> String {
    if t.is_empty() {
        return "{}".into();
    }
    let v: Vec<String> = t
        .iter()
        .map(|(p, n)| match n {
            Node::Dir => format!("{}/", p),
            Node::File(b) => format!("{}={}", p, String::from_utf8_lossy(b)),
        })
        .collect();
    format!("{{{}}}", v.join(" "))
}

/// Initial layer contents for an overlay configuration whose layers are all base-backed:
/// `layer_bases[i]` = index into Built.bases of the base that backs layer i.
/// Generates every type-consistent combination of (upper tree from `uppers`) x (lower trees).
pub fn layerings(layer_bases: &[usize], lower_paths: &[String], full: bool) -> Vec<InitSpec> {
    let n = layer_bases.len();
    let mut out = vec![];
    // per-layer candidate trees; file bytes identify the layer, and the deeper layers also differ in
    // length (metadata must come from the layer that serves the bytes): "u", "l", "mm", "nnn"
    let bytes: [&[u8]; 4] = [b"u", b"l", b"mm", b"nnn"];
    let mut cands: Vec<Vec<Vec<(String, Node)>>> = vec![];
    for i in 0..n {
        let all = trees_over(lower_paths, bytes[i.min(3)]);
        if i == 0 && !full {
            // upper layer: empty, or every tree (filtered below to shadowing / split shapes)
            cands.push(all);
        } else {
            cands.push(all);
        }
    }
    let mut idx = vec![0usize; n];
    loop {
        let layers: Vec<Vec<(String, Node)>> = (0..n).map(|i| cands[i][idx[i]].clone()).collect();
        if let Some(m) = Model::union_of(&layers) {
            let keep = full || n == 1 || {
                // quick: upper layer is empty, or only touches paths that some lower layer has too
                // (shadowing files / split directories), or adds one new child next to lower ones
                let upper = &layers[0];
                upper
                    .iter()
                    .all(|(p, _)| layers[1..].iter().any(|l| l.iter().any(|(q, _)| q == p)))
            };
            if keep {
                out.push(InitSpec {
                    label: layers
                        .iter()
                        .map(|l| tree_label(l))
                        .collect::<Vec<_>>()
                        .join(" over "),
                    init: layers
                        .iter()
                        .enumerate()
                        .map(|(i, l)| (layer_bases[i], l.clone()))
                        .collect(),
                    model: Some(m),
                });
            }
        }
        // next index vector
        let mut k = 0;
        loop {
            if k == n {
                return out;
            }
            idx[k] += 1;
            if idx[k] < cands[k].len() {
                break;
            }
            idx[k] = 0;
            k += 1;
        }
    }
}

/// Layerings in which some path is a directory in one layer and a file in another, admissible
/// under `Model::union_of_ext` (and not already type-consistent).
pub fn mixed_type_layerings(n: usize, lower_paths: &[String]) -> Vec<InitSpec> {
    let bytes: [&[u8]; 4] = [b"u", b"l", b"m", b"n"];
    let cands: Vec<Vec<Vec<(String, Node)>>> = (0..n)
        .map(|i| trees_over(lower_paths, bytes[i.min(3)]))
        .collect();
    let mut out = vec![];
    let mut idx = vec![0usize; n];
    loop {
        let layers: Vec<Vec<(String, Node)>> = (0..n).map(|i| cands[i][idx[i]].clone()).collect();
        if Model::union_of(&layers).is_none() {
            if let Some(m) = Model::union_of_ext(&layers) {
                out.push(InitSpec {
                    label: format!(
                        "mixed types: {}",
                        layers
                            .iter()
                            .map(|l| tree_label(l))
                            .collect::<Vec<_>>()
                            .join(" over ")
                    ),
                    init: layers
                        .iter()
                        .enumerate()
                        .map(|(i, l)| (i, l.clone()))
                        .collect(),
                    model: Some(m),
                });
            }
        }
        let mut k = 0;
        loop {
            if k == n {
                return out;
            }
            idx[k] += 1;
            if idx[k] < cands[k].len() {
                break;
            }
            idx[k] = 0;
            k += 1;
        }
    }
}

/// Runs several spaces one after the other (each one parallel inside).
pub fn run_spaces(ctx: &Ctx, spaces: Vec<TreeSpace>, lim: &Limits) -> (Vec<Stats>, Vec<Violation>) {
    let mut all = vec![];
    let mut vio = vec![];
    for s in spaces {
        if let Some(only) = &ctx.only_cfg {
            if s.cfg.label() != *only {
                continue;
            }
        }
        let (st, v) = bfs(&s, lim);
        println!(
            "  [{}] states={} transitions={} depth={} fixpoint={} nontrivial={} violations={}/{} ({:.1}s){}",
            st.label,
            st.states,
            st.transitions,
            st.max_depth,
            st.fixpoint,
            st.nontrivial,
            v.len(),
            st.vio_counts.values().sum::<u64>(),
            st.wall_s,
            st.capped.as_ref().map(|c| format!(" CAPPED: {}", c)).unwrap_or_default()
        );
        all.push(st);
        vio.extend(v);
    }
    (all, vio)
}

pub fn finish(
    ctx: &Ctx,
    info: &RunInfo,
    coverage: Value,
    assumptions: &[&str],
    violations: &[Violation],
) -> i32 {
    finish_counts(
        ctx,
        info,
        coverage,
        assumptions,
        violations,
        &Default::default(),
    )
}

pub fn finish_counts(
    ctx: &Ctx,
    info: &RunInfo,
    coverage: Value,
    assumptions: &[&str],
    violations: &[Violation],
    counts: &std::collections::BTreeMap<String, u64>,
) -> i32 {
    let (fresh, known) = conclude(info, violations, counts);
    let mut cov = coverage;
    cov["violations_total"] = json!(counts.values().sum::<u64>().max(violations.len() as u64));
    cov["known_finding_entries_matched"] = json!(known);
    write_evidence(
        info,
        cov,
        assumptions,
        ctx.t0.elapsed().as_secs_f64(),
        fresh,
    );
    if fresh > 0 {
        1
    } else {
        println!(
            "OK property={} tier={} ({:.1}s)",
            info.property,
            info.tier,
            ctx.t0.elapsed().as_secs_f64()
        );
        0
    }
}
