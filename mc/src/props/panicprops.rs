//! C13: no operation panics (unrestricted exploration incl. root removal and type-inconsistent
//! layerings, handle scripts interleaved with removals, hostile directory contents on disk,
//! EmbeddedFS, join strings).

use super::*;
use crate::api::*;
use crate::handle::*;
use rayon::prelude::*;
use std::collections::BTreeMap;
use std::io::{Read, Seek, SeekFrom, Write};
use std::os::unix::ffi::OsStringExt;

/// All combinations of layer trees, type-consistent or not.
fn any_layerings(n: usize, paths: &[String]) -> Vec<InitSpec> {
    let bytes: [&[u8]; 4] = [b"u", b"l", b"m", b"n"];
    let cands: Vec<Vec<Vec<(String, Node)>>> =
        (0..n).map(|i| trees_over(paths, bytes[i.min(3)])).collect();
    let mut out = vec![];
    let mut idx = vec![0usize; n];
    loop {
        let layers: Vec<Vec<(String, Node)>> = (0..n).map(|i| cands[i][idx[i]].clone()).collect();
        if Model::union_of(&layers).is_none() {
            out.push(InitSpec {
                label: format!("type-inconsistent #{}", out.len()),
                init: layers
                    .iter()
                    .enumerate()
                    .map(|(i, l)| (i, l.clone()))
                    .collect(),
                model: None,
            });
        }
        let mut k = 0;
        loop {
            if k == n {
                return out;
            }
            idx[k] += 1;
            if idx[k] < cands[k].len() {
                break;
            }
            idx[k] = 0;
            k += 1;
        }
    }
}

#[derive(Clone, Copy, Debug)]
enum HStep {
    OpenReader,
    OpenAppend,
    OpenCreate,
    DropReader,
    DropWriter,
    Read1,
    Write,
    Flush,
    RemoveFile,
    RecreateFile,
    RecreateAsDir,
    RemoveParentAll,
    SeekEnd3,
    SeekStart0,
}

const HSTEPS: [HStep; 14] = [
    HStep::OpenReader,
    HStep::OpenAppend,
    HStep::OpenCreate,
    HStep::DropReader,
    HStep::DropWriter,
    HStep::Read1,
    HStep::Write,
    HStep::Flush,
    HStep::RemoveFile,
    HStep::RecreateFile,
    HStep::RecreateAsDir,
    HStep::RemoveParentAll,
    HStep::SeekEnd3,
    HStep::SeekStart0,
];

fn hscript(code: usize, depth: usize) -> Vec<HStep> {
    let n = HSTEPS.len();
    let mut x = code;
    (0..depth)
        .map(|_| {
            let s = HSTEPS[x % n];
            x /= n;
            s
        })
        .collect()
}

/// One read handle and one write handle on the same file, opened, used, dropped and re-opened in
/// every order (while the file is also removed / re-created), on the sync and on the async stacks.
/// Returns the number of scripts; panics go to `vio` (C13), scripts whose final observable state
/// differs between the sync and the async world to `diffs` (C15).
pub fn handle_interplay(depth: usize, vio: &mut Vec<Violation>, diffs: &mut Vec<Violation>, classes: &mut BTreeMap<String, u64>) -> u64 {
    use crate::asyncmc::{abuild, block_on};
    use async_std::io::prelude::{ReadExt as _, SeekExt as _, WriteExt as _};
    let cfgs = [Cfg::Mem, Cfg::alt(Cfg::Mem, "/Z"), Cfg::Ov(vec![Cfg::Mem, Cfg::Mem]), Cfg::Phys];
    let total = HSTEPS.len().pow(depth as u32);
    let work: Vec<(usize, bool, usize)> = (0..cfgs.len())
        .flat_map(|c| [false, true].into_iter().flat_map(move |a| (0..total).map(move |s| (c, a, s))))
        .collect();
    // the library's async read_dir prints every entry: keep stdout clean while the sweep runs
    let quiet = crate::asyncmc::Silence::start();
    let probes = vec!["/d".to_string(), "/d/f".to_string()];
    let res: Vec<(Vec<Violation>, Vec<String>, Option<Vec<String>>)> = work
        .par_iter()
        .map(|(ci, is_async, code)| {
            let cfg = &cfgs[*ci];
            let script = hscript(*code, depth);
            let mut final_state: Option<Vec<String>> = None;
            let init: Init = if matches!(cfg, Cfg::Ov(_)) {
                vec![(1, vec![("/d/f".to_string(), Node::File(b"lower".to_vec()))])]
            } else {
                vec![(0, vec![("/d/f".to_string(), Node::File(b"abc".to_vec()))])]
            };
            let mut cl = vec![];
            // every step runs under its own guard and never unwinds past a live handle: a handle
            // whose Drop panics must not be dropped a second time while the first panic unwinds
            // (that would abort the process); after the first panic the handles are leaked
            let r: Result<(), String> = if *is_async {
                let b = abuild(cfg, Order::Asc, &init);
                let d = b.root.join("d").unwrap();
                let f = b.root.join("d/f").unwrap();
                let mut rd = None;
                let mut wr = None;
                let mut res = Ok(());
                for s in script.iter().map(Some).chain(std::iter::once(None)) {
                    let step = guard(|| {
                        let mut buf = [0u8; 1];
                        match s {
                            Some(HStep::OpenReader) => {
                                drop(rd.take());
                                rd = block_on(f.open_file()).ok();
                                Some(rd.is_some())
                            }
                            Some(HStep::OpenAppend) => {
                                drop(wr.take());
                                wr = block_on(f.append_file()).ok();
                                Some(wr.is_some())
                            }
                            Some(HStep::OpenCreate) => {
                                drop(wr.take());
                                wr = block_on(f.create_file()).ok();
                                Some(wr.is_some())
                            }
                            Some(HStep::DropReader) => rd.take().map(|_| true),
                            Some(HStep::DropWriter) => wr.take().map(|_| true),
                            Some(HStep::Read1) => rd.as_mut().map(|h| block_on(h.read(&mut buf)).is_ok()),
                            Some(HStep::Write) => wr.as_mut().map(|h| block_on(h.write_all(b"w")).is_ok()),
                            Some(HStep::Flush) => wr.as_mut().map(|h| block_on(h.flush()).is_ok()),
                            Some(HStep::RemoveFile) => Some(block_on(f.remove_file()).is_ok()),
                            Some(HStep::RecreateFile) => Some(block_on(d.create_dir_all()).is_ok() && block_on(async { f.create_file().await?.write_all(b"new").await.map_err(vfs::VfsError::from) }).is_ok()),
                            Some(HStep::RecreateAsDir) => Some(block_on(f.create_dir_all()).is_ok()),
                            Some(HStep::RemoveParentAll) => Some(block_on(d.remove_dir_all()).is_ok()),
                            Some(HStep::SeekEnd3) => rd.as_mut().map(|h| block_on(h.seek(SeekFrom::End(3))).is_ok()),
                            Some(HStep::SeekStart0) => rd.as_mut().map(|h| block_on(h.seek(SeekFrom::Start(0))).is_ok()),
                            None => {
                                // end of the script: close both, the filesystem is still usable
                                drop(rd.take());
                                drop(wr.take());
                                let _ = block_on(f.exists());
                                let _ = block_on(d.read_dir());
                                final_state = Some(crate::snapshot::snapshot(&crate::asyncmc::ABlock(b.root.clone()), &probes).dump());
                                None
                            }
                        }
                    });
                    match step {
                        Ok(c) => cl.push(format!("async:{:?}:{:?}", s, c)),
                        Err(m) => {
                            res = Err(m);
                            break;
                        }
                    }
                }
                std::mem::forget(rd);
                std::mem::forget(wr);
                res
            } else {
                let b = build(cfg, Order::Asc, &init);
                let d = b.root.join("d").unwrap();
                let f = b.root.join("d/f").unwrap();
                let mut rd: Option<Box<dyn vfs::SeekAndRead + Send>> = None;
                let mut wr: Option<Box<dyn vfs::SeekAndWrite + Send>> = None;
                let mut seeked_writer = false;
                let mut res = Ok(());
                for s in script.iter().map(Some).chain(std::iter::once(None)) {
                    let step = guard(|| {
                        let mut buf = [0u8; 1];
                        match s {
                            Some(HStep::OpenReader) => {
                                drop(rd.take());
                                rd = f.open_file().ok();
                                Some(rd.is_some())
                            }
                            Some(HStep::OpenAppend) => {
                                drop(wr.take());
                                wr = f.append_file().ok();
                                Some(wr.is_some())
                            }
                            Some(HStep::OpenCreate) => {
                                drop(wr.take());
                                wr = f.create_file().ok();
                                Some(wr.is_some())
                            }
                            Some(HStep::DropReader) => rd.take().map(|_| true),
                            Some(HStep::DropWriter) => wr.take().map(|_| true),
                            Some(HStep::Read1) => rd.as_mut().map(|h| h.read(&mut buf).is_ok()),
                            Some(HStep::Write) => wr.as_mut().map(|h| h.write_all(b"w").is_ok()),
                            Some(HStep::Flush) => wr.as_mut().map(|h| h.flush().is_ok()),
                            Some(HStep::RemoveFile) => Some(f.remove_file().is_ok()),
                            Some(HStep::RecreateFile) => Some(d.create_dir_all().is_ok() && PathApi::write_file(&f, b"new").is_ok()),
                            Some(HStep::RecreateAsDir) => Some(f.create_dir_all().is_ok()),
                            Some(HStep::RemoveParentAll) => Some(d.remove_dir_all().is_ok()),
                            Some(HStep::SeekEnd3) => {
                                // (async write handles cannot seek: such scripts are not compared)
                                seeked_writer |= wr.is_some();
                                let a = rd.as_mut().map(|h| h.seek(SeekFrom::End(3)).is_ok());
                                let b = wr.as_mut().map(|h| h.seek(SeekFrom::End(3)).is_ok());
                                a.or(b)
                            }
                            Some(HStep::SeekStart0) => {
                                seeked_writer |= wr.is_some();
                                let a = rd.as_mut().map(|h| h.seek(SeekFrom::Start(0)).is_ok());
                                let b = wr.as_mut().map(|h| h.seek(SeekFrom::Start(0)).is_ok());
                                a.or(b)
                            }
                            None => {
                                drop(rd.take());
                                drop(wr.take());
                                if !seeked_writer {
                                    final_state = Some(crate::snapshot::snapshot(&b.root, &probes).dump());
                                }
                                None
                            }
                        }
                    });
                    match step {
                        Ok(c) => cl.push(format!("sync:{:?}:{:?}", s, c)),
                        Err(m) => {
                            res = Err(m);
                            break;
                        }
                    }
                }
                std::mem::forget(rd);
                std::mem::forget(wr);
                res
            };
            let mut local = vec![];
            if let Err(m) = r {
                let world = if *is_async { "async" } else { "sync" };
                local.push(Violation {
                    property: "C13".into(),
                    signature: format!("{} {}|reader-and-writer-on-one-file|panic|{}", world, cfg.label(), m.split(" @ ").last().unwrap_or("")),
                    summary: format!("{} {}: script {:?} on /d/f: panicked: {}", world, cfg.label(), script, m),
                    replay: json!({"engine": "handle-interplay", "world": world, "configuration": cfg.label(), "script": format!("{:?}", script)}),
                });
            }
            (local, cl, final_state)
        })
        .collect();
    drop(quiet);
    // the same script in both worlds: same final tree, types, lengths and bytes
    for ci in 0..cfgs.len() {
        // (not on the physical backends: an async-std file keeps written bytes in its own buffer until
        // it is flushed or dropped, so touching the path while the handle is open - which C01 leaves
        // unspecified anyway - legitimately ends differently there)
        if cfgs[ci].has_phys() {
            continue;
        }
        for code in 0..total {
            let s = &res[(ci * 2) * total + code].2;
            let a = &res[(ci * 2 + 1) * total + code].2;
            if let (Some(s), Some(a)) = (s, a) {
                if s != a {
                    diffs.push(Violation {
                        property: "C15".into(),
                        signature: format!("sync~async {}|reader-and-writer-on-one-file|final-state-differs", cfgs[ci].label()),
                        summary: format!("script {:?} on /d/f of {}: final state sync {:?}, async {:?}", hscript(code, depth), cfgs[ci].label(), s, a),
                        replay: json!({"engine": "handle-interplay", "configuration": cfgs[ci].label(), "script": format!("{:?}", hscript(code, depth))}),
                    });
                }
            }
        }
    }
    for (v, cl, _) in res {
        vio.extend(v);
        for c in cl {
            *classes.entry(format!("handle-interplay:{}", c)).or_insert(0) += 1;
        }
    }
    work.len() as u64
}

/// Hostile directory contents created behind PhysicalFS's back.
fn hostile_disk(vio: &mut Vec<Violation>, classes: &mut BTreeMap<String, u64>) -> u64 {
    let kinds = [
        "non-utf8-file-name",
        "non-utf8-dir-name",
        "dangling-symlink",
        "symlink-to-dir",
        "symlink-loop",
        "symlink-to-file",
    ];
    let calls = [
        "read_dir",
        "walk_dir",
        "exists",
        "metadata",
        "is_file",
        "is_dir",
        "open_file",
        "read_to_string",
        "create_dir",
        "create_dir_all",
        "create_file",
        "append_file",
        "remove_file",
        "remove_dir",
        "remove_dir_all",
        "copy_file_to",
        "copy_file_from",
        "move_file_from",
        "copy_dir_from",
        "move_dir_from",
        "set_modification_time",
        "set_access_time",
    ];
    let mut n = 0u64;
    for kind in kinds {
        for call in calls {
            for target in [
                "hostile entry",
                "its parent",
                "a child path below it",
                "the root",
            ] {
                let b = build(&Cfg::Phys, Order::Native, &vec![]);
                let root_dir = b.phys_outer_dirs()[0].join("root");
                let parent = root_dir.join("p");
                std::fs::create_dir_all(&parent).unwrap();
                std::fs::write(parent.join("plain"), b"plain").unwrap();
                std::fs::create_dir_all(root_dir.join("realdir/sub")).unwrap();
                std::fs::write(root_dir.join("realfile"), b"real").unwrap();
                let name: std::ffi::OsString = match kind {
                    "non-utf8-file-name" => {
                        let nm = std::ffi::OsString::from_vec(vec![b'b', 0xff, 0xfe, b'x']);
                        std::fs::write(parent.join(&nm), b"bad").unwrap();
                        nm
                    }
                    "non-utf8-dir-name" => {
                        let nm = std::ffi::OsString::from_vec(vec![b'd', 0xc3, 0x28]);
                        std::fs::create_dir(parent.join(&nm)).unwrap();
                        std::fs::write(parent.join(&nm).join("inner"), b"i").unwrap();
                        nm
                    }
                    "dangling-symlink" => {
                        std::os::unix::fs::symlink("does-not-exist", parent.join("link")).unwrap();
                        "link".into()
                    }
                    "symlink-to-dir" => {
                        std::os::unix::fs::symlink("../realdir", parent.join("link")).unwrap();
                        "link".into()
                    }
                    "symlink-to-file" => {
                        std::os::unix::fs::symlink("../realfile", parent.join("link")).unwrap();
                        "link".into()
                    }
                    _ => {
                        std::os::unix::fs::symlink("link", parent.join("link")).unwrap();
                        "link".into()
                    }
                };
                let name_str = name.to_string_lossy().into_owned();
                let p = match target {
                    "hostile entry" => b.root.join(format!("p/{}", name_str)),
                    "its parent" => b.root.join("p"),
                    "a child path below it" => b.root.join(format!("p/{}/child", name_str)),
                    _ => Ok(b.root.clone()),
                };
                let p = match p {
                    Ok(p) => p,
                    Err(_) => continue,
                };
                n += 1;
                let other = b.root.join("other").unwrap();
                let t = std::time::SystemTime::UNIX_EPOCH + std::time::Duration::from_secs(12345);
                let r = guard(|| match call {
                    "read_dir" => PathApi::read_dir(&p).is_ok(),
                    "walk_dir" => PathApi::walk(&p).is_ok(),
                    "exists" => p.exists().is_ok(),
                    "metadata" => p.metadata().is_ok(),
                    "is_file" => p.is_file().is_ok(),
                    "is_dir" => p.is_dir().is_ok(),
                    "open_file" => PathApi::read_all(&p).is_ok(),
                    "read_to_string" => p.read_to_string().is_ok(),
                    "create_dir" => p.create_dir().is_ok(),
                    "create_dir_all" => p.create_dir_all().is_ok(),
                    "create_file" => PathApi::write_file(&p, b"w").is_ok(),
                    "append_file" => PathApi::append(&p, b"w").is_ok(),
                    "remove_file" => p.remove_file().is_ok(),
                    "remove_dir" => !p.is_root() && p.remove_dir().is_ok(),
                    "remove_dir_all" => !p.is_root() && p.remove_dir_all().is_ok(),
                    "copy_file_to" => b.root.join("realfile").unwrap().copy_file(&p).is_ok(),
                    "copy_file_from" => p.copy_file(&other).is_ok(),
                    "move_file_from" => !p.is_root() && p.move_file(&other).is_ok(),
                    "copy_dir_from" => !p.is_root() && p.copy_dir(&other).is_ok(),
                    "move_dir_from" => !p.is_root() && p.move_dir(&other).is_ok(),
                    "set_modification_time" => p.set_modification_time(t).is_ok(),
                    "set_access_time" => p.set_access_time(t).is_ok(),
                    _ => unreachable!(),
                });
                *classes
                    .entry(format!(
                        "hostile-disk:{}:{}:{}",
                        kind,
                        call,
                        match &r {
                            Ok(true) => "Ok",
                            Ok(false) => "Err",
                            Err(_) => "Panic",
                        }
                    ))
                    .or_insert(0) += 1;
                if let Err(m) = r {
                    vio.push(Violation {
                        property: "C13".into(),
                        signature: format!("Phys|hostile-disk|{}|{}|{}|panic", kind, call, target),
                        summary: format!("PhysicalFS with a {} in a directory: {} on {} panicked: {}", kind, call, target, m),
                        replay: json!({"engine": "hostile-disk", "content": kind, "call": call, "target": target}),
                    });
                }
            }
        }
    }
    n
}

pub fn run_c13(ctx: &Ctx) -> i32 {
    let info = ctx.info("C13", "model_checking");
    let thorough = ctx.tier == Tier::Thorough;
    let mon = Monitors {
        panics: true,
        ..Default::default()
    };
    let dom = Domain::Unrestricted { root_removal: true };
    let mut spaces = vec![];
    let a22 = alphabet(u22(), &[b"x"], 1, true);
    let a4 = alphabet(u4(), &[b"x"], 1, true);
    let a3 = alphabet(u3(), &[b"x"], 1, true);
    let mk = |cfg: Cfg, order: Order, alpha: Alphabet, inits: Vec<InitSpec>| {
        let inits = inits
            .into_iter()
            .map(|mut i| {
                i.model = None;
                i
            })
            .collect();
        // on overlays a removal of the root walks into the (visible) /.whiteout directory and writes
        // markers for markers, which makes the state space infinite: root removal is explored on
        // the other configurations only
        let d = if cfg.has_overlay() {
            Domain::Unrestricted {
                root_removal: false,
            }
        } else {
            dom.clone()
        };
        TreeSpace::new("C13", cfg, order, alpha, d, inits, mon.clone())
    };
    let ov2 = Cfg::Ov(vec![Cfg::Mem, Cfg::Mem]);
    spaces.push(mk(Cfg::Mem, Order::Asc, a22.clone(), empty_init(false)));
    spaces.push(mk(Cfg::Phys, Order::Asc, a4.clone(), empty_init(false)));
    // prefix-sharing, dotted and multi-byte names (byte-index slicing)
    spaces.push(mk(
        Cfg::Mem,
        Order::Asc,
        alphabet(u_names(), &[b"x"], 1, true),
        empty_init(false),
    ));
    spaces.push(mk(
        Cfg::Phys,
        Order::Asc,
        alphabet(u_names_small(), &[b"x"], 1, false),
        empty_init(false),
    ));
    spaces.push(mk(
        ov2.clone(),
        Order::Asc,
        alphabet(u_names_small(), &[b"x"], 1, false),
        empty_init(false),
    ));
    // overlay layers that are directories inside other filesystems (paths of different lengths),
    // and a write layer whose directory does not exist (yet) when the overlay is first used
    spaces.push(mk(
        Cfg::Ov(vec![Cfg::sub(Cfg::Mem, "/rw"), Cfg::sub(Cfg::Mem, "/base/v1")]),
        Order::Asc,
        a3.clone(),
        empty_init(false),
    ));
    spaces.push(mk(
        Cfg::Ov(vec![Cfg::Sub(Box::new(Cfg::Mem), "/up".into(), false), Cfg::Mem]),
        Order::Asc,
        a3.clone(),
        empty_init(false),
    ));
    // names whose byte length minus a small constant falls inside a character
    let mb = Universe::new(
        "U_multibyte",
        &["/éé", "/éé/a", "/日a", "/日a/é", "/a😀", "/a😀/b"],
    );
    spaces.push(mk(
        ov2.clone(),
        Order::Asc,
        alphabet(mb.clone(), &[b"x"], 1, false),
        layerings(&[0, 1], &mb.paths[..4].to_vec(), false),
    ));
    spaces.push(mk(
        Cfg::Mem,
        Order::Asc,
        alphabet(mb.clone(), &[b"x"], 1, true),
        empty_init(false),
    ));
    spaces.push(mk(
        Cfg::alt(Cfg::Mem, "/é"),
        Order::Asc,
        alphabet(mb.clone(), &[b"x"], 1, false),
        empty_init(false),
    ));
    spaces.push(mk(
        Cfg::alt(Cfg::Mem, "/Z"),
        Order::Asc,
        a4.clone(),
        empty_init(false),
    ));
    let u2 = Universe::new("U2{a,a/a}", &["/a", "/a/a"]);
    spaces.push(mk(
        ov2.clone(),
        Order::Asc,
        alphabet(u2.clone(), &[b"x"], 1, true),
        layerings(&[0, 1], &u2.paths, true),
    ));
    spaces.push(mk(
        ov2.clone(),
        Order::Desc,
        alphabet(u2.clone(), &[b"x"], 1, true),
        any_layerings(2, &u2.paths),
    ));
    if thorough {
        spaces.push(mk(
            ov2.clone(),
            Order::Asc,
            a3.clone(),
            layerings(&[0, 1], &u3().paths, false),
        ));
        spaces.push(mk(
            ov2.clone(),
            Order::Desc,
            a3.clone(),
            any_layerings(2, &u2.paths),
        ));
        spaces.push(mk(
            ov2.clone(),
            Order::Asc,
            a4.clone(),
            any_layerings(2, &u3().paths),
        ));
        spaces.push(mk(
            Cfg::Ov(vec![Cfg::Phys, Cfg::Phys]),
            Order::Asc,
            a3.clone(),
            any_layerings(2, &u2.paths),
        ));
        spaces.push(mk(
            Cfg::Ov(vec![Cfg::Mem, Cfg::Mem, Cfg::Mem]),
            Order::Asc,
            a3.clone(),
            any_layerings(3, &u2.paths),
        ));
        spaces.push(mk(
            Cfg::alt(Cfg::Phys, "/Z"),
            Order::Asc,
            a22.clone(),
            empty_init(false),
        ));
        spaces.push(mk(
            Cfg::alt(ov2.clone(), "/Z"),
            Order::Asc,
            a3.clone(),
            layerings(&[0, 1], &u3().paths, false),
        ));
        spaces.push(mk(
            Cfg::alt(Cfg::Mem, "/Z"),
            Order::Desc,
            alphabet(u_names(), &[b"x"], 1, true),
            empty_init(false),
        ));
    }
    let lim = limits(ctx);
    let (mut stats, mut vio) = run_spaces(ctx, spaces, &lim);
    let mut classes: BTreeMap<String, u64> = BTreeMap::new();
    let mut extra_runs = 0u64;

    // a reader and a writer on the same file at the same time while the file / its parent is
    // removed or replaced, in both worlds
    let mut _diffs = vec![];
    let n = handle_interplay(if thorough { 4 } else { 3 }, &mut vio, &mut _diffs, &mut classes);
    println!("  [reader and writer handles on one file, sync and async] scripts={}", n);
    extra_runs += n;

    // reader / writer scripts at every offset (only panics count here; values are C14's business)
    for b in [HB::Mem, HB::Phys, HB::AltMem, HB::OvLower, HB::Embedded] {
        for c in [&b""[..], &b"abcd"[..]] {
            let (st, v) = reader_scripts("C13", b, c, 3, &|l: &Live| {
                l.file.open_file().map_err(|e| e.to_string())
            });
            extra_runs += st.scripts;
            vio.extend(
                v.into_iter()
                    .filter(|x| x.signature.contains("Panic") || x.signature.contains("panic")),
            );
        }
    }
    for b in [HB::Mem, HB::Phys, HB::OvLower] {
        for append in [false, true] {
            let (st, v) = writer_scripts("C13", b, Some(b"abc"), append, 3);
            extra_runs += st.scripts;
            vio.extend(
                v.into_iter()
                    .filter(|x| x.signature.contains("Panic") || x.signature.contains("panic")),
            );
        }
    }
    println!(
        "  [handle scripts at every offset] runs so far={}",
        extra_runs
    );

    // hostile on-disk contents
    let n = hostile_disk(&mut vio, &mut classes);
    println!("  [hostile directory contents on PhysicalFS] calls={}", n);
    extra_runs += n;

    // EmbeddedFS: every operation on every path (panics only)
    let (n, v) = super::embedprops::panic_sweep();
    extra_runs += n;
    vio.extend(v);
    println!(
        "  [EmbeddedFS every operation x every path] evaluations={}",
        n
    );

    // the async port: lock-step exploration with the unrestricted alphabet and reader scripts
    let (n, v) = super::asyncprops::panic_sweep(ctx);
    extra_runs += n;
    vio.extend(v);
    println!("  [async port: unrestricted lock-step exploration + reader scripts, panics only] evaluations={}", n);

    // join strings
    let (n, v) = super::pathprops::panic_sweep(if thorough { 7 } else { 5 });
    extra_runs += n;
    vio.extend(v);
    println!("  [join strings] evaluations={}", n);

    // the one documented panic
    match guard(|| vfs::OverlayFS::new(&[])) {
        Err(_) => {}
        Ok(_) => vio.push(Violation {
            property: "C13".into(),
            signature: "OverlayFS::new(&[])|no-panic".into(),
            summary: "OverlayFS::new(&[]) is documented to panic but returned".into(),
            replay: json!({"engine": "misc"}),
        }),
    }

    let mut xs = Stats {
        label:
            "handle scripts, reader+writer interplay with removals, hostile disk contents, EmbeddedFS, join strings"
                .into(),
        states: 1,
        transitions: extra_runs,
        fixpoint: true,
        nontrivial: classes.len() as u64,
        ..Default::default()
    };
    xs.counters = classes;
    stats.push(xs);
    let mut counts = BTreeMap::new();
    for st in &stats {
        for (k, v) in &st.vio_counts {
            *counts.entry(k.clone()).or_insert(0u64) += v;
        }
    }
    let vio = crate::handle::dedupe(vio);
    let cov = bfs_coverage(
        &stats,
        "catch_unwind around every call and every observer: BFS with the unrestricted alphabet incl. removal of the root and the states after it, type-inconsistent overlay layerings; reader/writer scripts at every offset; handles used while their file / parent is removed or replaced; every call on / next to / below hostile on-disk entries (non-UTF-8 names, dangling / looping symlinks); every operation on every path of the embedded fixtures; all join strings up to the bound",
        json!({"documented_panic_checked": "OverlayFS::new(&[])"}),
    );
    finish_counts(ctx, &info, cov, &["copy_dir / move_dir into the source's own subtree excluded (documented non-termination)", "async port: sync/async lock-step exploration with the unrestricted alphabet and async reader scripts, every call under catch_unwind"], &vio, &counts)
}
