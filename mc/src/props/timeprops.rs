//! C19: timestamps round-trip and are independent of content.

use super::*;
use crate::api::*;
use std::collections::BTreeMap;
use std::time::{Duration, SystemTime, UNIX_EPOCH};

fn times() -> Vec<(&'static str, SystemTime)> {
    vec![
        ("epoch", UNIX_EPOCH),
        ("epoch+1ns", UNIX_EPOCH + Duration::from_nanos(1)),
        ("epoch+1.5s", UNIX_EPOCH + Duration::from_millis(1500)),
        (
            "2001-09-09T01:46:40.123456789",
            UNIX_EPOCH + Duration::new(1_000_000_000, 123_456_789),
        ),
        (
            "year-2100",
            UNIX_EPOCH + Duration::new(4_102_444_800, 999_999_999),
        ),
        ("1969-12-20", UNIX_EPOCH - Duration::new(1_000_000, 0)),
        (
            "year-1901",
            UNIX_EPOCH - Duration::new(2_177_452_800, 500_000_000),
        ),
        ("year-2262", UNIX_EPOCH + Duration::new(9_214_646_400, 1)),
    ]
}

const FIELDS: [TimeField; 3] = [TimeField::Created, TimeField::Modified, TimeField::Accessed];

fn fname(f: TimeField) -> &'static str {
    match f {
        TimeField::Created => "created",
        TimeField::Modified => "modified",
        TimeField::Accessed => "accessed",
    }
}

fn get(m: &Meta, f: TimeField) -> Option<SystemTime> {
    match f {
        TimeField::Created => m.created,
        TimeField::Modified => m.modified,
        TimeField::Accessed => m.accessed,
    }
}

#[derive(Clone, Copy, PartialEq, Debug)]
enum Follow {
    Nothing,
    Append,
    Overwrite,
    CopyToSibling,
    /// open + read the file: created / modified must not move
    Read,
    /// the setters run while an append handle (opened before them) is still open; it is written
    /// to and dropped afterwards: on the in-memory backend `created` must keep the value set
    AppendHandleOpenAcrossSetters,
    /// the entry is read (open + read, or listed) BEFORE the setters: whatever the backend noted
    /// for that access must not outlive an explicit setter
    ReadBeforeSetters,
    /// an append handle is opened and WRITTEN to before the setters and dropped after them with
    /// no further write: on backends whose handles write through (physical ones) the drop must
    /// not change any timestamp or the length again
    AppendWrittenBeforeSetters,
    /// calls on the entry that are REFUSED (create_dir on something that exists, create_file /
    /// append_file on a directory, remove_dir / read_dir on a file, creating below a file) come
    /// after the setters: a call that fails changes nothing, the values set are still reported
    RefusedCalls,
}

struct Case {
    cfg: Cfg,
    label: &'static str,
    /// base index that initially holds the entry
    base: usize,
    /// further bases that hold an entry of the same name and type (directories split across layers,
    /// a file shadowed by an upper copy)
    also: &'static [usize],
    /// does the backend that serves / is written to support the setter?
    supports: fn(TimeField) -> bool,
    /// MemoryFS serves the entry directly (no copy-up on append): append must preserve `created`
    mem_based: bool,
}

fn all_supported(_: TimeField) -> bool {
    true
}
fn phys_supported(f: TimeField) -> bool {
    f != TimeField::Created
}

pub fn run_c19(ctx: &Ctx) -> i32 {
    let info = ctx.info("C19", "model_checking");
    let ov = Cfg::Ov(vec![Cfg::Mem, Cfg::Mem]);
    let mut cases = vec![
        Case {
            cfg: Cfg::Mem,
            label: "Mem",
            base: 0,
            also: &[],
            supports: all_supported,
            mem_based: true,
        },
        Case {
            cfg: Cfg::Phys,
            label: "Phys",
            base: 0,
            also: &[],
            supports: phys_supported,
            mem_based: false,
        },
        Case {
            cfg: Cfg::alt(Cfg::Mem, "/Z"),
            label: "Alt(Mem,/Z)",
            base: 0,
            also: &[],
            supports: all_supported,
            mem_based: true,
        },
        Case {
            cfg: Cfg::alt(Cfg::Phys, "/Z"),
            label: "Alt(Phys,/Z)",
            base: 0,
            also: &[],
            supports: phys_supported,
            mem_based: false,
        },
        Case {
            cfg: ov.clone(),
            label: "Ov[Mem,Mem]/upper",
            base: 0,
            also: &[],
            supports: all_supported,
            mem_based: true,
        },
        Case {
            cfg: ov.clone(),
            label: "Ov[Mem,Mem]/lower-only",
            base: 1,
            also: &[],
            supports: all_supported,
            mem_based: false,
        },
    ];
    // the entry exists in the upper layer AND in a lower layer (the upper one is served)
    cases.push(Case {
        cfg: ov.clone(),
        label: "Ov[Mem,Mem]/upper+lower",
        base: 0,
        also: &[1],
        supports: all_supported,
        mem_based: true,
    });
    cases.push(Case {
        cfg: Cfg::Ov(vec![Cfg::Mem, Cfg::Mem, Cfg::Mem]),
        label: "Ov[Mem,Mem,Mem]/upper+lowest",
        base: 0,
        also: &[2],
        supports: all_supported,
        mem_based: true,
    });
    // a write layer that does not support every setter, and an entry that only a lower layer holds
    cases.push(Case {
        cfg: Cfg::Ov(vec![Cfg::Phys, Cfg::Phys]),
        label: "Ov[Phys,Phys]/lower-only",
        base: 1,
        also: &[],
        supports: phys_supported,
        mem_based: false,
    });
    cases.push(Case {
        cfg: Cfg::Ov(vec![Cfg::Phys, Cfg::Mem]),
        label: "Ov[Phys,Mem]/lower-only",
        base: 1,
        also: &[],
        supports: phys_supported,
        mem_based: false,
    });
    cases.push(Case {
        cfg: Cfg::alt(Cfg::Ov(vec![Cfg::Phys, Cfg::Phys]), "/Z"),
        label: "Alt(Ov[Phys,Phys],/Z)/lower-only",
        base: 1,
        also: &[],
        supports: phys_supported,
        mem_based: false,
    });
    {
        cases.push(Case {
            cfg: Cfg::Ov(vec![Cfg::Phys, Cfg::Phys]),
            label: "Ov[Phys,Phys]/upper+lower",
            base: 0,
            also: &[1],
            supports: phys_supported,
            mem_based: false,
        });
        cases.push(Case {
            cfg: Cfg::Ov(vec![Cfg::Phys, Cfg::Phys]),
            label: "Ov[Phys,Phys]/upper",
            base: 0,
            also: &[],
            supports: phys_supported,
            mem_based: false,
        });
        cases.push(Case {
            cfg: Cfg::Ov(vec![Cfg::Mem, Cfg::Mem, Cfg::Mem]),
            label: "Ov[Mem,Mem,Mem]/lowest-only",
            base: 2,
            also: &[],
            supports: all_supported,
            mem_based: false,
        });
        cases.push(Case {
            cfg: Cfg::alt(ov.clone(), "/Z"),
            label: "Alt(Ov[Mem,Mem],/Z)/upper",
            base: 0,
            also: &[],
            supports: all_supported,
            mem_based: true,
        });
    }
    let ts = times();
    // setter sequences: every single setter, and all 6 orders of the three setters
    let mut seqs: Vec<Vec<TimeField>> = FIELDS.iter().map(|f| vec![*f]).collect();
    for a in 0..3 {
        for b in 0..3 {
            for c in 0..3 {
                if a != b && b != c && a != c {
                    seqs.push(vec![FIELDS[a], FIELDS[b], FIELDS[c]]);
                }
            }
        }
    }
    let mut vio: Vec<Violation> = vec![];
    let mut classes: BTreeMap<String, u64> = BTreeMap::new();
    let mut runs = 0u64;
    let mut setter_calls = 0u64;
    for case in &cases {
        // kinds: file, directory, and (on the plain physical backend and an altroot over it) a
        // symbolic link to a file that was placed in the directory behind the backend's back:
        // setters and metadata both follow it, so the values must round-trip as for a file
        let link_ok = matches!(&case.cfg, Cfg::Phys) || matches!(&case.cfg, Cfg::Alt(x, _) if **x == Cfg::Phys);
        for kind_ix in 0..3usize {
            let is_dir = kind_ix == 1;
            let is_link = kind_ix == 2;
            if is_link && !link_ok {
                continue;
            }
            for (ti, _) in ts.iter().enumerate() {
                for seq in &seqs {
                    for follow in [
                        Follow::Nothing,
                        Follow::Append,
                        Follow::Overwrite,
                        Follow::CopyToSibling,
                        Follow::Read,
                        Follow::AppendHandleOpenAcrossSetters,
                        Follow::ReadBeforeSetters,
                        Follow::AppendWrittenBeforeSetters,
                        Follow::RefusedCalls,
                    ] {
                        if is_link && follow == Follow::RefusedCalls {
                            continue;
                        }
                        if (is_dir || is_link) && !matches!(follow, Follow::Nothing | Follow::ReadBeforeSetters | Follow::RefusedCalls) {
                            continue;
                        }
                        runs += 1;
                        let node = if is_dir {
                            Node::Dir
                        } else {
                            Node::File(b"abc".to_vec())
                        };
                        let mut init: Init =
                            vec![(case.base, vec![("/t".to_string(), node.clone())])];
                        for extra in case.also {
                            init.push((*extra, vec![("/t".to_string(), node.clone())]));
                        }
                        if is_link {
                            init = vec![(case.base, vec![("/tt".to_string(), node.clone())])];
                        }
                        let b = build(&case.cfg, Order::Asc, &init);
                        if is_link {
                            let prefix = b.bases[0].prefix.clone();
                            let dir = b.phys_outer_dirs()[0].join("root").join(prefix.trim_start_matches('/'));
                            std::os::unix::fs::symlink(dir.join("tt"), dir.join("t")).expect("HARNESS: symlink");
                        }
                        let p = b.root.join("t").unwrap();
                        let kind = if is_dir { "dir" } else if is_link { "symlink-to-file" } else { "file" };
                        let mk = |tail: String, what: String| Violation {
                            property: "C19".into(),
                            signature: format!("{}|{}|{}", case.label, kind, tail),
                            summary: format!(
                                "{} ({}), setters {:?}, then {:?}: {}",
                                case.label,
                                kind,
                                seq.iter().map(|f| fname(*f)).collect::<Vec<_>>(),
                                follow,
                                what
                            ),
                            replay: json!({"engine": "time", "case": case.label, "kind": kind, "setters": seq.iter().map(|f| fname(*f)).collect::<Vec<_>>(), "first_value": ts[ti].0, "follow_up": format!("{:?}", follow)}),
                        };
                        let mut set_values: BTreeMap<&'static str, SystemTime> = BTreeMap::new();
                        if follow == Follow::ReadBeforeSetters {
                            let _ = PathApi::read_all(&p);
                            let _ = PathApi::read_dir(&p);
                            let _ = p.read_to_string();
                        }
                        let mut open_handle = if follow == Follow::AppendHandleOpenAcrossSetters {
                            p.append_file().ok()
                        } else {
                            None
                        };
                        let mut written_handle = if follow == Follow::AppendWrittenBeforeSetters {
                            use std::io::Write;
                            p.append_file().ok().map(|mut h| {
                                let _ = h.write_all(b"w");
                                h
                            })
                        } else {
                            None
                        };
                        for (k, f) in seq.iter().enumerate() {
                            let (tname, tv) = ts[(ti + k) % ts.len()];
                            let before = match PathApi::metadata(&p) {
                                Ok(m) => m,
                                Err(e) => {
                                    vio.push(mk("metadata-failed".into(), e.display));
                                    break;
                                }
                            };
                            let r = guard(|| p.set_time(*f, tv));
                            setter_calls += 1;
                            let after = PathApi::metadata(&p);
                            *classes
                                .entry(format!(
                                    "{}:{}:{}:{}",
                                    case.label,
                                    kind,
                                    fname(*f),
                                    match &r {
                                        Ok(Ok(())) => "Ok".to_string(),
                                        Ok(Err(e)) => format!("Err({})", e.kind.name()),
                                        Err(_) => "Panic".into(),
                                    }
                                ))
                                .or_insert(0) += 1;
                            let after = match after {
                                Ok(m) => m,
                                Err(e) => {
                                    vio.push(mk(
                                        format!("set_{}|metadata-after-failed", fname(*f)),
                                        e.display,
                                    ));
                                    break;
                                }
                            };
                            match r {
                                Err(m) => vio.push(mk(
                                    format!("set_{}|panic", fname(*f)),
                                    format!("panicked: {}", m),
                                )),
                                Ok(Ok(())) => {
                                    if get(&after, *f) != Some(tv) {
                                        vio.push(mk(
                                            format!(
                                                "set_{}|value-not-reported|{}",
                                                fname(*f),
                                                tname
                                            ),
                                            format!(
                                                "set {} to {} ({:?}) but metadata reports {:?}",
                                                fname(*f),
                                                tname,
                                                tv,
                                                get(&after, *f)
                                            ),
                                        ));
                                    }
                                    for g in FIELDS {
                                        if g != *f && get(&after, g) != get(&before, g) {
                                            vio.push(mk(
                                                format!("set_{}|changed-{}", fname(*f), fname(g)),
                                                format!(
                                                    "setting {} changed {} from {:?} to {:?}",
                                                    fname(*f),
                                                    fname(g),
                                                    get(&before, g),
                                                    get(&after, g)
                                                ),
                                            ));
                                        }
                                    }
                                    if after.len != before.len || after.ftype != before.ftype {
                                        vio.push(mk(
                                            format!("set_{}|changed-len-or-type", fname(*f)),
                                            format!(
                                                "len/type {:?}/{} -> {:?}/{}",
                                                before.ftype, before.len, after.ftype, after.len
                                            ),
                                        ));
                                    }
                                    set_values.insert(fname(*f), tv);
                                }
                                Ok(Err(e)) => {
                                    if after != before {
                                        vio.push(mk(
                                            format!("set_{}|failed-but-changed", fname(*f)),
                                            format!(
                                                "failed with {} but metadata changed: {:?} -> {:?}",
                                                e.display, before, after
                                            ),
                                        ));
                                    }
                                    if e.kind == Kind::NotSupported {
                                        if (case.supports)(*f) {
                                            vio.push(mk(
                                                format!(
                                                    "set_{}|not-supported-on-supporting-backend",
                                                    fname(*f)
                                                ),
                                                e.display.clone(),
                                            ));
                                        }
                                    } else if (case.supports)(*f) {
                                        vio.push(mk(format!("set_{}|refused|Err({})", fname(*f), e.kind.name()), format!("every layer supports setting {} and the entry exists, but the call failed: {}", fname(*f), e.display)));
                                    } else {
                                        vio.push(mk(format!("set_{}|unsupported-not-reported-as-not-supported|Err({})", fname(*f), e.kind.name()), e.display.clone()));
                                    }
                                }
                            }
                        }
                        if let Some(h) = written_handle.take() {
                            let before_drop = PathApi::metadata(&p);
                            drop(h);
                            // (memory based handles publish on drop, which is a modification; handles
                            // of the physical backend have written through long ago)
                            if case.cfg.has_phys() && !case.mem_based {
                                if let (Ok(bm), Ok(am)) = (before_drop, PathApi::metadata(&p)) {
                                    if am.modified != bm.modified || am.created != bm.created || am.len != bm.len {
                                        vio.push(mk("drop-of-a-written-append-handle-changed-the-entry".into(), format!("the handle had been written before the setters; dropping it changed modified/created/len: {:?} -> {:?}", bm, am)));
                                    }
                                }
                            }
                        }
                        if let Some(mut h) = open_handle.take() {
                            use std::io::Write;
                            let _ = h.write_all(b"d");
                            drop(h);
                            if let Ok(am) = PathApi::metadata(&p) {
                                if case.mem_based {
                                    if let Some(t) = set_values.get("created") {
                                        if am.created != Some(*t) {
                                            vio.push(mk("open-append-handle-lost-created".into(), format!("created was set to {:?} while an append handle was open; after the handle was written and dropped metadata reports {:?}", t, am.created)));
                                        }
                                    }
                                }
                                if am.len != 4 {
                                    vio.push(mk(
                                        "open-append-handle-len".into(),
                                        format!("len after the append {}", am.len),
                                    ));
                                }
                            }
                            continue;
                        }
                        // bytes untouched by the setters
                        if !is_dir {
                            let expected: &[u8] = if follow == Follow::AppendWrittenBeforeSetters {
                                b"abcw"
                            } else {
                                b"abc"
                            };
                            match PathApi::read_all(&p) {
                                Ok(bytes) if bytes == expected => {}
                                other => vio.push(mk(
                                    "setters-changed-bytes".into(),
                                    format!(
                                        "content after the setters: {:?}",
                                        other.map_err(|e| e.display)
                                    ),
                                )),
                            }
                        }
                        // adapters report the timestamps of the entry they serve
                        {
                            let top = PathApi::metadata(&p);
                            let serving = b.bases.iter().find(|base| {
                                let full = format!("{}/t", base.prefix);
                                base.raw
                                    .join(&full[1..])
                                    .map(|x| x.exists().unwrap_or(false))
                                    .unwrap_or(false)
                            });
                            if let (Ok(top), Some(base)) = (top, serving) {
                                let full = format!("{}/t", base.prefix);
                                if let Ok(raw) =
                                    PathApi::metadata(&base.raw.join(&full[1..]).unwrap())
                                {
                                    for g in FIELDS {
                                        if get(&top, g) != get(&raw, g) {
                                            vio.push(mk(format!("adapter-reports-other-{}", fname(g)), format!("the stack reports {} {:?}, the serving base {} reports {:?}", fname(g), get(&top, g), base.label, get(&raw, g))));
                                        }
                                    }
                                }
                            }
                        }
                        // follow-up operations
                        let before = PathApi::metadata(&p);
                        match follow {
                            Follow::Nothing => {}
                            Follow::Append => {
                                if PathApi::append(&p, b"d").is_ok() {
                                    if let (Ok(bm), Ok(am)) = (&before, PathApi::metadata(&p)) {
                                        if case.mem_based && am.created != bm.created {
                                            vio.push(mk(
                                                "append-changed-created".into(),
                                                format!(
                                                    "append changed the creation time {:?} -> {:?}",
                                                    bm.created, am.created
                                                ),
                                            ));
                                        }
                                        if am.len != 4 {
                                            vio.push(mk(
                                                "append-len".into(),
                                                format!("len after append {}", am.len),
                                            ));
                                        }
                                    }
                                }
                            }
                            Follow::Overwrite => {
                                if PathApi::write_file(&p, b"zz").is_ok() {
                                    if let Ok(am) = PathApi::metadata(&p) {
                                        if am.len != 2 {
                                            vio.push(mk(
                                                "overwrite-len".into(),
                                                format!("len after overwrite {}", am.len),
                                            ));
                                        }
                                    }
                                }
                            }
                            Follow::AppendHandleOpenAcrossSetters | Follow::ReadBeforeSetters | Follow::AppendWrittenBeforeSetters => {}
                            Follow::RefusedCalls => {
                                let child = p.join("x").unwrap();
                                let mut calls: Vec<(&str, Box<dyn Fn() -> bool + '_>)> = vec![];
                                calls.push(("create_dir", Box::new(|| p.create_dir().is_err())));
                                if is_dir {
                                    calls.push(("create_file", Box::new(|| p.create_file().is_err())));
                                    calls.push(("append_file", Box::new(|| p.append_file().is_err())));
                                    if !case.cfg.has_overlay() {
                                        // (on an overlay this call is the recorded finding of C09)
                                        calls.push(("remove_file", Box::new(|| p.remove_file().is_err())));
                                    }
                                } else {
                                    calls.push(("remove_dir", Box::new(|| p.remove_dir().is_err())));
                                    calls.push(("read_dir", Box::new(|| p.read_dir().is_err())));
                                    calls.push(("create_dir(below)", Box::new(|| child.create_dir().is_err())));
                                    calls.push(("create_file(below)", Box::new(|| child.create_file().is_err())));
                                }
                                for (name, call) in &calls {
                                    let bm = PathApi::metadata(&p);
                                    let refused = match guard(|| call()) {
                                        Ok(r) => r,
                                        Err(m) => {
                                            vio.push(mk(format!("{}|panic", name), format!("panicked: {}", m)));
                                            continue;
                                        }
                                    };
                                    *classes.entry(format!("{}:{}:refused-call:{}:{}", case.label, kind, name, if refused { "Err" } else { "Ok" })).or_insert(0) += 1;
                                    if !refused {
                                        break; // (not a refused call on this backend: nothing to say here)
                                    }
                                    if let (Ok(bm), Ok(am)) = (bm, PathApi::metadata(&p)) {
                                        if am.created != bm.created || am.modified != bm.modified || am.len != bm.len || am.ftype != bm.ftype {
                                            vio.push(mk(format!("refused-{}-changed-the-entry", name), format!("{} on the {} failed, yet created/modified/len/type changed: {:?} -> {:?}", name, kind, bm, am)));
                                        }
                                    }
                                }
                            }
                            Follow::Read => {
                                if PathApi::read_all(&p).is_ok() {
                                    if let (Ok(bm), Ok(am)) = (&before, PathApi::metadata(&p)) {
                                        if am.created != bm.created
                                            || am.modified != bm.modified
                                            || am.len != bm.len
                                        {
                                            vio.push(mk("read-changed-created-or-modified".into(), format!("reading the file changed created/modified/len: {:?} -> {:?}", bm, am)));
                                        }
                                    }
                                }
                            }
                            Follow::CopyToSibling => {
                                let q = b.root.join("t2").unwrap();
                                if p.copy_file(&q).is_ok() {
                                    if let (Ok(bm), Ok(am)) = (&before, PathApi::metadata(&p)) {
                                        if am.created != bm.created
                                            || am.modified != bm.modified
                                            || am.len != bm.len
                                        {
                                            vio.push(mk("copy-changed-source".into(), format!("copy_file changed the source's created/modified/len: {:?} -> {:?}", bm, am)));
                                        }
                                    }
                                    match PathApi::read_all(&q) {
                                        Ok(x) if x == b"abc" => {}
                                        other => vio.push(mk(
                                            "copy-bytes".into(),
                                            format!("{:?}", other.map_err(|e| e.display)),
                                        )),
                                    }
                                }
                            }
                        }
                        let _ = set_values;
                    }
                }
            }
        }
        println!(
            "  [{}] runs so far={} setter calls={} violations so far={}",
            case.label,
            runs,
            setter_calls,
            vio.len()
        );
    }
    let vio = crate::handle::dedupe(vio);
    let mut counts = BTreeMap::new();
    for v in &vio {
        *counts.entry(v.signature.clone()).or_insert(0u64) += 1;
    }
    let cov = json!({
        "states": runs.max(1),
        "transitions": setter_calls.max(1),
        "traces_validated_against_impl": runs,
        "evaluations": setter_calls.max(1),
        "distinct_nontrivial": classes.len(),
        "rule": "every time value of the boundary set x every single setter and all 6 orders of the three setters (pairwise distinct values) x {file, directory} x configuration x follow-up {nothing, append, overwrite, copy_file}; field-wise model: an accepted setter sets exactly its field, a refused one changes nothing; classes = (configuration, kind, setter, outcome class)",
        "samples": times().iter().map(|(n, _)| n.to_string()).collect::<Vec<_>>(),
        "exhaustive": true,
        "classes": classes,
    });
    finish(ctx, &info, cov, &["PhysicalFS on tmpfs (nanosecond timestamps)", "metadata is taken immediately before and after each setter, nothing is read in between (MemoryFS updates `accessed` on open)"], &vio)
}
