//! C04 (bytes written are the bytes read) and C14 (Read / Write / Seek contracts).

use super::*;
use crate::handle::*;
use std::collections::BTreeMap;

const CONTENTS: [&[u8]; 3] = [b"", b"a", b"abcd"];

fn merge(into: &mut BTreeMap<String, u64>, from: &BTreeMap<String, u64>, prefix: &str) {
    for (k, v) in from {
        *into.entry(format!("{}{}", prefix, k)).or_insert(0) += v;
    }
}

fn open_reader(l: &Live) -> Result<Box<dyn vfs::SeekAndRead + Send>, String> {
    l.file.open_file().map_err(|e| e.to_string())
}

pub fn run_c14(ctx: &Ctx) -> i32 {
    let info = ctx.info("C14", "model_checking");
    let thorough = ctx.tier == Tier::Thorough;
    let mut vio = vec![];
    let mut classes = BTreeMap::new();
    let mut scripts = 0u64;
    let mut steps = 0u64;
    let mut per = vec![];
    let backends = [
        HB::Mem,
        HB::Phys,
        HB::AltMem,
        HB::OvUpper,
        HB::OvLower,
        HB::Ov3Lower,
        HB::Embedded,
    ];
    for b in backends {
        let depth = if (thorough && !b.is_phys()) || b == HB::Mem {
            5
        } else {
            4
        };
        for c in CONTENTS {
            let (st, v) = reader_scripts("C14", b, c, depth, &open_reader);
            println!(
                "  [reader {} content {:?} depth {}] scripts={} steps={} violations={}",
                b.label(),
                String::from_utf8_lossy(c),
                depth,
                st.scripts,
                st.steps,
                v.len()
            );
            scripts += st.scripts;
            steps += st.steps;
            merge(&mut classes, &st.classes, "reader:");
            per.push(json!({"kind": "reader", "backend": b.label(), "content_len": c.len(), "depth": depth, "scripts": st.scripts, "steps": st.steps}));
            vio.extend(v);
        }
    }
    let wbackends = [HB::Mem, HB::Phys, HB::AltMem, HB::OvUpper, HB::OvLower, HB::Ov3Lower];
    for b in wbackends {
        let depth = if thorough && !b.is_phys() {
            5
        } else if b.is_phys() {
            3
        } else {
            4
        };
        for prior in [None, Some(&b""[..]), Some(&b"abc"[..])] {
            for append in [false, true] {
                if matches!(b, HB::OvLower | HB::Ov3Lower) && prior.is_none() {
                    continue;
                }
                let (st, v) = writer_scripts("C14", b, prior, append, depth);
                println!(
                    "  [writer {} prior {:?} append={} depth {}] scripts={} steps={} violations={}",
                    b.label(),
                    prior.map(String::from_utf8_lossy),
                    append,
                    depth,
                    st.scripts,
                    st.steps,
                    v.len()
                );
                scripts += st.scripts;
                steps += st.steps;
                merge(
                    &mut classes,
                    &st.classes,
                    if append {
                        "append-writer:"
                    } else {
                        "create-writer:"
                    },
                );
                per.push(json!({"kind": "writer", "backend": b.label(), "append": append, "prior": prior.map(|p| p.len()), "depth": depth, "scripts": st.scripts, "steps": st.steps}));
                vio.extend(v);
            }
        }
    }
    // long writes (>= 8 KiB) next to short ones in one session: buffers inside a write handle
    let (cases, evals, v3) = lengths_and_buffers(
        "C14",
        &[HB::Mem, HB::Phys, HB::AltPhys, HB::OvUpper, HB::OvPhysLower],
        &[8193, 16385],
        &[8192],
    );
    println!("  [two writes of different size per session, lengths 8193 / 16385] cases={} reads={} violations={}", cases, evals, v3.len());
    steps += evals;
    vio.extend(v3);
    let cov = json!({
        "states": classes.len().max(1),
        "transitions": steps.max(1),
        "traces_validated_against_impl": scripts,
        "evaluations": steps.max(1),
        "distinct_nontrivial": classes.len(),
        "rule": "every script of exactly d steps (hence every shorter prefix) over the 16 reader steps / 13 writer steps, on a fresh handle per script, compared call by call with std::io::Cursor; a class = (step, position class relative to the length, result class); distinct classes are counted",
        "samples": [
            {"reader_steps": format!("{:?}", reader_steps(4))},
            {"writer_steps": format!("{:?}", writer_steps())},
        ],
        "exhaustive": true,
        "per_run": per,
        "classes": classes,
    });
    finish(ctx, &info, cov, &["contents \"\", \"a\", \"abcd\"; offsets from the listed step set", "seeking on append handles is compared on memory based stacks only (O_APPEND differs by design)", "error kinds of handle errors are not compared, only Ok/Err, positions and bytes"], &vio)
}

pub fn run_c04(ctx: &Ctx) -> i32 {
    let info = ctx.info("C04", "model_checking");
    let thorough = ctx.tier == Tier::Thorough;
    let mut vio = vec![];
    let mut classes = BTreeMap::new();
    let mut scripts = 0u64;
    let mut steps = 0u64;
    let mut per = vec![];
    // (a) session scripts
    let wbackends = [
        HB::Mem,
        HB::Phys,
        HB::AltMem,
        HB::AltPhys,
        HB::OvUpper,
        HB::OvLower,
        HB::OvPhysLower,
        HB::Ov3Lower,
    ];
    for b in wbackends {
        let depth = if b.is_phys() {
            3
        } else if thorough {
            5
        } else {
            4
        };
        for prior in [None, Some(&b""[..]), Some(&b"abc"[..])] {
            for append in [false, true] {
                if matches!(b, HB::OvLower | HB::OvPhysLower | HB::Ov3Lower) && prior.is_none() {
                    continue;
                }
                let (st, v) = writer_scripts("C04", b, prior, append, depth);
                println!("  [session {} prior {:?} append={} depth {}] scripts={} steps={} violations={}", b.label(), prior.map(String::from_utf8_lossy), append, depth, st.scripts, st.steps, v.len());
                scripts += st.scripts;
                steps += st.steps;
                merge(
                    &mut classes,
                    &st.classes,
                    if append { "append:" } else { "create:" },
                );
                per.push(json!({"kind": "session-script", "backend": b.label(), "append": append, "prior": prior.map(|p| p.len()), "depth": depth, "scripts": st.scripts}));
                vio.extend(v);
            }
        }
    }
    // (b) all session sequences on the same paths, to fixpoint: create / append / copy / move
    let mut spaces = vec![];
    let two = Universe::new("U{a,b}", &["/a", "/b"]);
    let w: Vec<&[u8]> = vec![b"", b"x", b"\xff\x00"];
    for cfg in [
        Cfg::Mem,
        Cfg::Phys,
        Cfg::alt(Cfg::Mem, "/Z"),
        Cfg::alt(Cfg::Phys, "/Z"),
    ] {
        spaces.push(TreeSpace::new(
            "C04",
            cfg,
            Order::Asc,
            alphabet(two.clone(), &w, 3, true),
            Domain::Typed,
            empty_init(true),
            Monitors {
                model: true,
                ..Default::default()
            },
        ));
    }
    for cfg in [
        Cfg::Ov(vec![Cfg::Mem, Cfg::Mem]),
        Cfg::Ov(vec![Cfg::Phys, Cfg::Phys]),
    ] {
        let inits = layerings(&[0, 1], &two.paths, false);
        spaces.push(TreeSpace::new(
            "C04",
            cfg,
            Order::Asc,
            alphabet(two.clone(), &[b"x"], 3, true),
            Domain::Typed,
            inits,
            Monitors {
                model: true,
                ..Default::default()
            },
        ));
    }
    // the same name in several read-only layers with different lengths (which layer answers metadata?)
    spaces.push(TreeSpace::new(
        "C04",
        Cfg::Ov(vec![Cfg::Mem, Cfg::Mem, Cfg::Mem]),
        Order::Asc,
        alphabet(two.clone(), &[b"x"], 3, false),
        Domain::Typed,
        layerings(&[0, 1, 2], &two.paths, false),
        Monitors {
            model: true,
            ..Default::default()
        },
    ));
    let lim = limits(ctx);
    let (stats, v2) = run_spaces(ctx, spaces, &lim);
    vio.extend(v2);
    // (c) boundary lengths x buffer sizes, through copy / move / copy-up
    let lens: Vec<usize> = if thorough {
        vec![0, 1, 2, 3, 8191, 8192, 8193, 16384, 65536, 65537]
    } else {
        vec![0, 1, 3, 8191, 8192, 8193, 65537]
    };
    // the same lengths once more for contents that end in a block of zero bytes (sparse-file tricks)
    let lens: Vec<usize> = lens.iter().cloned().chain([8192 | ZEROS, 16384 | ZEROS, 8193 | ZEROS, 100 | ZEROS]).collect();
    let bufs: Vec<usize> = if thorough {
        vec![1, 2, 3, 7, 4096, 8192, 8193, 70000]
    } else {
        vec![1, 7, 8192, 8193, 70000]
    };
    let lb = [
        HB::Mem,
        HB::Phys,
        HB::AltMem,
        HB::AltPhys,
        HB::OvUpper,
        HB::OvLower,
        HB::OvPhysLower,
        HB::Ov3Lower,
    ];
    let (cases, evals, v3) = lengths_and_buffers("C04", &lb, &lens, &bufs);
    println!(
        "  [lengths x buffers] cases={} reads={} violations={}",
        cases,
        evals,
        v3.len()
    );
    vio.extend(v3);
    // (d) files of 1 MiB + 5 and 3 MiB
    let (bn, bv) = big_file_sessions("C04", &[HB::Mem, HB::Phys, HB::AltMem, HB::OvUpper, HB::OvLower]);
    println!("  [append sessions on files of 1 MiB + 5 and 3 MiB, observed after open / flush / drop] cases={} violations={}", bn, bv.len());
    vio.extend(bv);
    let bfs_states: u64 = stats.iter().map(|s| s.states).sum();
    let bfs_trans: u64 = stats.iter().map(|s| s.transitions).sum();
    let mut counts = BTreeMap::new();
    for st in &stats {
        for (k, v) in &st.vio_counts {
            *counts.entry(k.clone()).or_insert(0u64) += v;
        }
    }
    let cov = json!({
        "states": (classes.len() as u64 + bfs_states).max(1),
        "transitions": (steps + bfs_trans + evals).max(1),
        "traces_validated_against_impl": scripts + bfs_trans,
        "evaluations": (steps + bfs_trans + evals).max(1),
        "distinct_nontrivial": classes.len() as u64 + stats.iter().map(|s| s.nontrivial).sum::<u64>(),
        "rule": "(a) every write/seek/flush script of exactly d steps on create and append handles with prior content absent/empty/\"abc\", a fresh reader after every flush and after drop, against Cursor<Vec<u8>>; (b) BFS to fixpoint of all create/append/copy/move/remove sequences over two paths against the byte model; (c) boundary lengths x read buffer sizes through write, copy_file, move_file, append (copy-up) and truncating overwrite. Distinct = (step, result class) classes plus distinct non-trivial BFS triples",
        "samples": [
            {"writer_steps": format!("{:?}", writer_steps())},
            {"lengths": lens, "buffer_sizes": bufs},
        ],
        "exhaustive": stats.iter().all(|s| s.fixpoint),
        "per_run": per,
        "session_sequences": stats.iter().map(stats_json).collect::<Vec<_>>(),
        "lengths_x_buffers": {"cases": cases, "reads": evals},
        "classes": classes,
    });
    finish_counts(
        ctx,
        &info,
        cov,
        &[
            "byte values from a fixed non-UTF-8 pattern; lengths up to 64 KiB + 1",
            "seeking on append handles is compared on memory based stacks only",
        ],
        &vio,
        &counts,
    )
}
