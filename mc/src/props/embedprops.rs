//! C18: EmbeddedFS is a faithful read-only view of the embedded folder.

use super::*;
use crate::api::*;
use crate::handle::Fixture;
use crate::snapshot::{snapshot, Snap};
use std::collections::{BTreeMap, BTreeSet};
use vfs::{EmbeddedFS, MemoryFS, PhysicalFS, VfsPath};

#[derive(rust_embed::RustEmbed, Debug)]
#[folder = "/repo/test/test_directory"]
pub struct RepoFixture;

fn path_set(phys: &VfsPath) -> Vec<String> {
    let mut base: BTreeSet<String> = BTreeSet::new();
    base.insert(String::new());
    for i in phys.walk_dir().expect("HARNESS: fixture walk").flatten() {
        base.insert(i.as_str().to_string());
    }
    let mut all: BTreeSet<String> = base.clone();
    for p in &base {
        let par = parent_of(p);
        if !p.is_empty() {
            all.insert(format!("{}x", p));
            all.insert(format!("{}.", p));
            let mut shorter = p.clone();
            shorter.pop();
            if !shorter.ends_with('/') && !shorter.is_empty() {
                all.insert(shorter);
            }
            // the same name with a foreign separator, a space or a multi-byte character in place of
            // a `/` (one component instead of two)
            if p.matches('/').count() >= 2 {
                let i = p.rfind('/').unwrap();
                for sep in ["\\", " ", "é", ":"] {
                    all.insert(format!("{}{}{}", &p[..i], sep, &p[i + 1..]));
                }
            }
            all.insert(format!("{}/zz", par));
            all.insert(format!("{}/{}~", par, name_of(p)));
        }
        all.insert(format!("{}/x", p));
        all.insert(format!("{}/x/y", p));
        all.insert(format!("{}/a", p));
    }
    // canonical only: no "", ".", ".." components (join would resolve them anyway)
    all.into_iter()
        .filter(|p| {
            p.is_empty()
                || p[1..]
                    .split('/')
                    .all(|c| !c.is_empty() && c != "." && c != "..")
        })
        .collect()
}

fn tmodel(s: &Snap) -> crate::model::Model {
    s.to_model()
}

struct Out {
    evals: u64,
    vio: Vec<Violation>,
    classes: BTreeMap<String, u64>,
}

fn run_fixture(label: &str, emb: VfsPath, phys: VfsPath, depth: usize, out: &mut Out) {
    let paths = path_set(&phys);
    let probes: Vec<String> = paths.clone();
    let mk = |sig: String, what: String| Violation {
        property: "C18".into(),
        signature: format!("Embedded[{}]|{}", label, sig),
        summary: what.clone(),
        replay: json!({"engine": "embed", "fixture": label, "case": what}),
    };
    // ---- observers on every path
    let se = snapshot(&emb, &probes);
    let sp = snapshot(&phys, &probes);
    if let Some(m) = &se.panic {
        out.vio.push(mk(
            "observer-panic".into(),
            format!("an observer panicked on the embedded filesystem: {}", m),
        ));
        // find the culprit path by path
        for p in &paths {
            for (name, r) in [
                (
                    "exists",
                    guard(|| at(&emb, p).and_then(|x| PathApi::exists(&x)).is_ok()),
                ),
                (
                    "metadata",
                    guard(|| at(&emb, p).and_then(|x| PathApi::metadata(&x)).is_ok()),
                ),
                (
                    "read_dir",
                    guard(|| at(&emb, p).and_then(|x| PathApi::read_dir(&x)).is_ok()),
                ),
                (
                    "open_file",
                    guard(|| at(&emb, p).and_then(|x| x.read_all()).is_ok()),
                ),
                (
                    "read_to_string",
                    guard(|| {
                        at(&emb, p)
                            .and_then(|x| PathApi::read_to_string(&x))
                            .is_ok()
                    }),
                ),
            ] {
                if let Err(m) = r {
                    out.vio.push(mk(
                        format!("{}|{}|panic", name, pclass(&sp, p)),
                        format!("{}({:?}) panicked: {}", name, p, m),
                    ));
                }
            }
        }
    }
    let model = tmodel(&sp);
    for p in &paths {
        out.evals += 6;
        let cls = pclass(&sp, p);
        *out.classes.entry(format!("observe:{}", cls)).or_insert(0) += 1;
        let (e, q) = match (se.entries.get(p), sp.entries.get(p)) {
            (Some(e), Some(q)) => (e, q),
            _ => continue,
        };
        let mut diff = vec![];
        if e.exists != q.exists {
            diff.push(format!(
                "exists {:?} vs {:?}",
                e.exists.as_ref().map_err(|x| x.kind),
                q.exists.as_ref().map_err(|x| x.kind)
            ));
        }
        if e.meta.as_ref().ok() != q.meta.as_ref().ok() {
            diff.push(format!(
                "metadata {:?} vs {:?}",
                e.meta.as_ref().ok(),
                q.meta.as_ref().ok()
            ));
        }
        if e.is_file != q.is_file || e.is_dir != q.is_dir {
            diff.push(format!(
                "is_file/is_dir {:?}/{:?} vs {:?}/{:?}",
                e.is_file.as_ref().ok(),
                e.is_dir.as_ref().ok(),
                q.is_file.as_ref().ok(),
                q.is_dir.as_ref().ok()
            ));
        }
        let set = |l: &R<Vec<String>>| {
            l.as_ref()
                .ok()
                .map(|v| v.iter().cloned().collect::<BTreeSet<_>>())
        };
        if set(&e.list) != set(&q.list) {
            diff.push(format!("read_dir {:?} vs {:?}", set(&e.list), set(&q.list)));
        }
        if e.content.as_ref().ok() != q.content.as_ref().ok() {
            diff.push(format!(
                "bytes {:?} vs {:?}",
                e.content.as_ref().ok().map(|b| b.len()),
                q.content.as_ref().ok().map(|b| b.len())
            ));
        }
        // missing from an existing directory => not-found
        if cls == "absent" {
            for (n, r) in [
                ("metadata", e.meta.as_ref().err()),
                ("read_dir", e.list.as_ref().err()),
                ("open_file", e.content.as_ref().err()),
            ] {
                if let Some(err) = r {
                    if err.kind != Kind::NotFound {
                        out.vio.push(mk(
                            format!("{}|absent|kind={}", n, err.kind.name()),
                            format!("{} of {:?}, which is missing from an existing directory, failed with {} ({}) instead of not-found", n, p, err.kind.name(), err.display),
                        ));
                        diff.push(format!(
                            "{} of a missing entry failed with {} instead of not-found",
                            n,
                            err.kind.name()
                        ));
                    }
                }
            }
        }
        if !diff.is_empty() {
            out.vio.push(mk(
                format!("observers-differ|{}", cls),
                format!(
                    "{:?} ({}): embedded vs physical: {}",
                    p,
                    cls,
                    diff.join("; ")
                ),
            ));
        }
        // read_to_string, walk_dir
        out.evals += 2;
        let rs_e = guard(|| at(&emb, p).and_then(|x| PathApi::read_to_string(&x)));
        let rs_p = at(&phys, p).and_then(|x| PathApi::read_to_string(&x));
        match rs_e {
            Err(m) => out.vio.push(mk(
                format!("read_to_string|{}|panic", cls),
                format!("read_to_string({:?}) panicked: {}", p, m),
            )),
            Ok(r) => {
                if r.as_ref().ok() != rs_p.as_ref().ok() {
                    out.vio.push(mk(
                        format!("read_to_string|{}", cls),
                        format!(
                            "read_to_string({:?}): {:?} vs {:?}",
                            p,
                            r.as_ref().map_err(|e| e.kind),
                            rs_p.as_ref().map_err(|e| e.kind)
                        ),
                    ));
                }
            }
        }
        let wk = |root: &VfsPath| -> Result<R<Vec<String>>, String> {
            guard(|| {
                at(root, p).and_then(|x| x.walk()).map(|v| {
                    v.into_iter()
                        .map(|i| i.map(|c| c.as_string()).unwrap_or_else(|_| "<ERR>".into()))
                        .collect()
                })
            })
        };
        match (wk(&emb), wk(&phys)) {
            (Err(m), _) => out.vio.push(mk(
                format!("walk_dir|{}|panic", cls),
                format!("walk_dir({:?}) panicked: {}", p, m),
            )),
            (Ok(a), Ok(b)) => {
                let sa = a
                    .as_ref()
                    .ok()
                    .map(|v| v.iter().cloned().collect::<BTreeSet<_>>());
                let sb = b
                    .as_ref()
                    .ok()
                    .map(|v| v.iter().cloned().collect::<BTreeSet<_>>());
                if sa != sb {
                    out.vio.push(mk(
                        format!("walk_dir|{}", cls),
                        format!("walk_dir({:?}): {:?} vs {:?}", p, sa, sb),
                    ));
                }
                if let Ok(items) = &a {
                    let pos: BTreeMap<&String, usize> =
                        items.iter().enumerate().map(|(i, x)| (x, i)).collect();
                    if pos.len() != items.len() {
                        out.vio.push(mk(
                            format!("walk_dir-duplicates|{}", cls),
                            format!("walk_dir({:?}) yields duplicates: {:?}", p, items),
                        ));
                    }
                    for it in items {
                        let par = parent_of(it);
                        if par != *p {
                            if let (Some(i), Some(j)) = (pos.get(it), pos.get(&par)) {
                                if j > i {
                                    out.vio.push(mk(
                                        "walk_dir-child-before-parent".into(),
                                        format!(
                                            "walk_dir({:?}) yields {:?} before {:?}",
                                            p, it, par
                                        ),
                                    ));
                                }
                            }
                        }
                    }
                }
            }
            _ => {}
        }
    }
    let tree_diff = crate::snapshot::diff_model(&se, &model, &probes);
    if se.panic.is_none() && !tree_diff.is_empty() {
        out.vio.push(mk(
            "tree-differs".into(),
            format!(
                "embedded tree differs from the folder: {}",
                tree_diff.join("; ")
            ),
        ));
    }
    // ---- reader scripts on every embedded file
    for p in &paths {
        if !model.is_file(p) {
            continue;
        }
        let content = sp.entries[p].content.clone().unwrap_or_default();
        if content.len() > 64 {
            continue;
        }
        let steps = crate::handle::reader_steps(content.len() as i64);
        let n = steps.len();
        for code in 0..n.pow(depth as u32) {
            let mut x = code;
            let mut script = vec![];
            for _ in 0..depth {
                script.push(steps[x % n]);
                x /= n;
            }
            let eh = guard(|| at(&emb, p).unwrap().open_file());
            let mut eh = match eh {
                Ok(Ok(h)) => h,
                other => {
                    out.vio.push(mk(
                        "open-existing-file".into(),
                        format!(
                            "open_file({:?}) on an embedded file: {:?}",
                            p,
                            other.map(|r| r.map(|_| ()).map_err(|e| e.to_string()))
                        ),
                    ));
                    break;
                }
            };
            let mut cur = std::io::Cursor::new(&content[..]);
            for s in &script {
                out.evals += 1;
                let want = crate::handle::do_rstep_pub(&mut cur, s);
                let got = crate::handle::do_rstep_pub(eh.as_mut(), s);
                if want != got {
                    out.vio.push(mk(
                        format!("reader|{:?}", s),
                        format!(
                            "reader of {:?}: script {:?}: {:?} vs cursor {:?}",
                            p, script, got, want
                        ),
                    ));
                    break;
                }
            }
        }
    }
    // ---- mutators: refused, nothing changes
    let t = std::time::SystemTime::UNIX_EPOCH + std::time::Duration::from_secs(1_000_000_000);
    let before = snapshot(&emb, &probes);
    // an immutable filesystem answers the same question the same way every time: the second look
    // (after all the observers, scripts and walks above) against the very first one
    if !se.same_tree(&before) {
        let first = se.dump();
        let second = before.dump();
        let differing: Vec<String> = second.iter().filter(|l| !first.contains(l)).take(4).cloned().collect();
        out.vio.push(mk(
            "a-second-look-differs-from-the-first".into(),
            format!("the observers were run on every path twice; the second pass differs, e.g. {:?}", differing),
        ));
    }
    let mem = VfsPath::new(MemoryFS::new());
    let _ = PathApi::write_file(&mem.join("src").unwrap(), b"from outside");
    let _ = mem.join("srcdir/sub").unwrap().create_dir_all();
    let mut n_out = 0u64;
    for p in &paths {
        let cls = pclass(&sp, p);
        let parent_dir = !p.is_empty() && model.is_dir(&parent_of(p));
        let e = at(&emb, p).unwrap();
        n_out += 1;
        let outp = mem.join(format!("out{}", n_out)).unwrap();
        let sib = at(&emb, &format!("{}/copy-target", parent_of(p))).unwrap();
        // (name, result, must_be_not_supported, may_be_ok)
        let calls: Vec<(&str, Result<R<()>, String>, bool, bool)> = vec![
            (
                "create_dir",
                guard(|| e.create_dir().map_err(|x| einfo(&x))),
                parent_dir,
                false,
            ),
            (
                "create_dir_all",
                guard(|| e.create_dir_all().map_err(|x| einfo(&x))),
                false,
                p.is_empty(),
            ),
            (
                "create_file",
                guard(|| PathApi::write_file(&e, b"w")),
                parent_dir && !model.is_dir(p),
                false,
            ),
            (
                "append_file",
                guard(|| PathApi::append(&e, b"w")),
                model.is_file(p),
                false,
            ),
            (
                "remove_file",
                guard(|| e.remove_file().map_err(|x| einfo(&x))),
                model.is_file(p),
                false,
            ),
            (
                "remove_dir",
                guard(|| e.remove_dir().map_err(|x| einfo(&x))),
                model.is_dir(p) && !p.is_empty(),
                false,
            ),
            (
                "remove_dir_all",
                guard(|| e.remove_dir_all().map_err(|x| einfo(&x))),
                model.is_dir(p) && !p.is_empty(),
                !model.exists(p),
            ),
            (
                "set_creation_time",
                guard(|| e.set_creation_time(t).map_err(|x| einfo(&x))),
                model.exists(p),
                false,
            ),
            (
                "set_modification_time",
                guard(|| e.set_modification_time(t).map_err(|x| einfo(&x))),
                model.exists(p),
                false,
            ),
            (
                "set_access_time",
                guard(|| e.set_access_time(t).map_err(|x| einfo(&x))),
                model.exists(p),
                false,
            ),
            (
                "copy_file(inside)",
                guard(|| e.copy_file(&sib).map_err(|x| einfo(&x))),
                model.is_file(p),
                false,
            ),
            (
                "move_file(inside)",
                guard(|| e.move_file(&sib).map_err(|x| einfo(&x))),
                model.is_file(p),
                false,
            ),
            (
                "copy_dir(inside)",
                guard(|| e.copy_dir(&sib).map(|_| ()).map_err(|x| einfo(&x))),
                model.is_dir(p) && !p.is_empty(),
                false,
            ),
            (
                "move_dir(inside)",
                guard(|| e.move_dir(&sib).map_err(|x| einfo(&x))),
                model.is_dir(p) && !p.is_empty(),
                false,
            ),
            (
                "copy_file(from outside)",
                guard(|| {
                    mem.join("src")
                        .unwrap()
                        .copy_file(&e)
                        .map_err(|x| einfo(&x))
                }),
                parent_dir && !model.exists(p),
                false,
            ),
            (
                "move_file(from outside)",
                guard(|| {
                    mem.join("src")
                        .unwrap()
                        .move_file(&e)
                        .map_err(|x| einfo(&x))
                }),
                parent_dir && !model.exists(p),
                false,
            ),
            (
                "copy_dir(from outside)",
                guard(|| {
                    mem.join("srcdir")
                        .unwrap()
                        .copy_dir(&e)
                        .map(|_| ())
                        .map_err(|x| einfo(&x))
                }),
                parent_dir && !model.exists(p),
                false,
            ),
            (
                "copy_file(to outside)",
                guard(|| e.copy_file(&outp).map_err(|x| einfo(&x))),
                false,
                model.is_file(p),
            ),
            (
                "move_file(to outside)",
                guard(|| {
                    e.move_file(&mem.join(format!("mv{}", n_out)).unwrap())
                        .map_err(|x| einfo(&x))
                }),
                model.is_file(p),
                false,
            ),
        ];
        for (name, r, must_ns, may_ok) in calls {
            out.evals += 1;
            *out.classes
                .entry(format!(
                    "{}:{}:{}",
                    name,
                    cls,
                    match &r {
                        Ok(Ok(())) => "Ok".to_string(),
                        Ok(Err(e)) => format!("Err({})", e.kind.name()),
                        Err(_) => "Panic".to_string(),
                    }
                ))
                .or_insert(0) += 1;
            match r {
                Err(m) => out.vio.push(mk(
                    format!("{}|{}|panic", name, cls),
                    format!("{} on {:?} panicked: {}", name, p, m),
                )),
                Ok(Ok(())) => {
                    if !may_ok {
                        out.vio.push(mk(
                            format!("{}|{}|accepted", name, cls),
                            format!(
                                "{} on {:?} ({}) returned Ok on a read-only filesystem",
                                name, p, cls
                            ),
                        ));
                    }
                }
                Ok(Err(e)) => {
                    if must_ns && e.kind != Kind::NotSupported {
                        out.vio.push(mk(format!("{}|{}|kind={}", name, cls, e.kind.name()), format!("{} on {:?} ({}) was refused with {} ({}) although its ordinary preconditions hold; expected not-supported", name, p, cls, e.kind.name(), e.display)));
                    }
                    for (k, w) in crate::tree::errpath_violations(
                        &e,
                        p,
                        Some(&format!("{}/copy-target", parent_of(p))),
                        name.contains("dir") || name.contains("walk"),
                    ) {
                        if !name.contains("outside") {
                            out.vio.push(mk(format!("{}|{}|{}", name, cls, k), w));
                        }
                    }
                }
            }
            if name == "copy_file(to outside)" && model.is_file(p) {
                let got = PathApi::read_all(&outp).ok();
                if got != sp.entries[p].content.clone().ok() {
                    out.vio.push(mk(
                        "copy-out-bytes".into(),
                        format!(
                            "copying {:?} out of the embedded filesystem produced different bytes",
                            p
                        ),
                    ));
                }
            }
        }
    }
    let after = snapshot(&emb, &probes);
    if !before.same_tree(&after) || after.panic.is_some() {
        out.vio.push(mk(
            "mutator-changed-something".into(),
            "the observable snapshot of the embedded filesystem changed after the mutating calls"
                .into(),
        ));
    }
    println!(
        "  [fixture {}] paths={} evaluations so far={} violations so far={}",
        label,
        paths.len(),
        out.evals,
        out.vio.len()
    );
}

fn pclass(s: &Snap, p: &str) -> String {
    crate::tree::tclass(s, p)
}

pub fn run_c18(ctx: &Ctx) -> i32 {
    let info = ctx.info("C18", "model_checking");
    let mut out = Out {
        evals: 0,
        vio: vec![],
        classes: BTreeMap::new(),
    };
    let depth = if ctx.tier == Tier::Thorough { 3 } else { 2 };
    run_fixture(
        "harness fixture",
        VfsPath::new(EmbeddedFS::<Fixture>::new()),
        VfsPath::new(PhysicalFS::new("/verif/mc/fixtures/embed")),
        depth,
        &mut out,
    );
    run_fixture(
        "repo test_directory",
        VfsPath::new(EmbeddedFS::<RepoFixture>::new()),
        VfsPath::new(PhysicalFS::new("/repo/test/test_directory")),
        depth,
        &mut out,
    );
    let vio = crate::handle::dedupe(out.vio);
    let cov = json!({
        "states": 2,
        "transitions": out.evals.max(1),
        "traces_validated_against_impl": out.evals,
        "evaluations": out.evals.max(1),
        "distinct_nontrivial": out.classes.len(),
        "rule": "an embedded filesystem is immutable, so its state space is one state per fixture and depth-1 closure covers all histories: every public path operation (observers, read_to_string, walk_dir, reader scripts, every mutator incl. transfers into / out of / inside it) on every path of the derived path set (files, implied directories, root, absent siblings, prefixes / extensions of names, paths below files); oracle = PhysicalFS on the same folder; classes = (operation, path class, outcome class)",
        "samples": ["/a/b/c.txt", "/a.b/é", "", "/a/ax", "/empty/x/y", "/ab", "/a."],
        "exhaustive": true,
        "classes": out.classes,
    });
    finish(ctx, &info, cov, &["two fixture folders (harness fixture with nested, dotted, multi-byte, prefix-sharing names, empty and binary files; the repository's test/test_directory)", "release build: rust-embed embeds the folder at compile time"], &vio)
}

/// Every operation on every path of both fixtures; only the error classification (kinds the
/// property fixes, paths carried by the errors) is returned (C12).
pub fn classification_sweep() -> (u64, Vec<Violation>) {
    let mut out = Out {
        evals: 0,
        vio: vec![],
        classes: BTreeMap::new(),
    };
    run_fixture(
        "harness fixture",
        VfsPath::new(EmbeddedFS::<Fixture>::new()),
        VfsPath::new(PhysicalFS::new("/verif/mc/fixtures/embed")),
        1,
        &mut out,
    );
    let v = out
        .vio
        .into_iter()
        .filter(|x| x.signature.contains("|kind=") || x.signature.ends_with("-path"))
        .map(|mut x| {
            x.property = "C12".into();
            x
        })
        .collect();
    (out.evals, v)
}

/// Every operation on every path of both fixtures; only panics are returned (C13).
pub fn panic_sweep() -> (u64, Vec<Violation>) {
    let mut out = Out {
        evals: 0,
        vio: vec![],
        classes: BTreeMap::new(),
    };
    run_fixture(
        "harness fixture",
        VfsPath::new(EmbeddedFS::<Fixture>::new()),
        VfsPath::new(PhysicalFS::new("/verif/mc/fixtures/embed")),
        2,
        &mut out,
    );
    run_fixture(
        "repo test_directory",
        VfsPath::new(EmbeddedFS::<RepoFixture>::new()),
        VfsPath::new(PhysicalFS::new("/repo/test/test_directory")),
        2,
        &mut out,
    );
    let v = out
        .vio
        .into_iter()
        .filter(|x| x.signature.contains("panic"))
        .map(|mut x| {
            x.property = "C13".into();
            x
        })
        .collect();
    (out.evals, v)
}
