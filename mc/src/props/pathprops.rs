//! C06: path joining is total, canonical and cannot climb above the root.

use super::*;
use crate::api::guard;
use rayon::prelude::*;
use std::collections::{BTreeMap, BTreeSet, HashSet};
use vfs::async_vfs::{AsyncMemoryFS, AsyncVfsPath};
use vfs::error::VfsErrorKind;
use vfs::{MemoryFS, VfsPath};

trait PathVal: Clone + Send + Sync {
    fn j(&self, s: &str) -> Result<Self, bool>; // Err(is_invalid_path_kind)
    fn par(&self) -> Self;
    fn rt(&self) -> Self;
    fn s(&self) -> String;
    fn fname(&self) -> String;
    fn ext(&self) -> Option<String>;
    fn isroot(&self) -> bool;
    fn same(&self, o: &Self) -> bool;
    fn err_path(&self, s: &str) -> Option<String>;
}

impl PathVal for VfsPath {
    fn j(&self, s: &str) -> Result<Self, bool> {
        self.join(s)
            .map_err(|e| matches!(e.kind(), VfsErrorKind::InvalidPath))
    }
    fn par(&self) -> Self {
        self.parent()
    }
    fn rt(&self) -> Self {
        self.root()
    }
    fn s(&self) -> String {
        self.as_str().to_string()
    }
    fn fname(&self) -> String {
        self.filename()
    }
    fn ext(&self) -> Option<String> {
        self.extension()
    }
    fn isroot(&self) -> bool {
        self.is_root()
    }
    fn same(&self, o: &Self) -> bool {
        self == o
    }
    fn err_path(&self, s: &str) -> Option<String> {
        self.join(s).err().map(|e| e.path().clone())
    }
}

impl PathVal for AsyncVfsPath {
    fn j(&self, s: &str) -> Result<Self, bool> {
        self.join(s)
            .map_err(|e| matches!(e.kind(), VfsErrorKind::InvalidPath))
    }
    fn par(&self) -> Self {
        self.parent()
    }
    fn rt(&self) -> Self {
        self.root()
    }
    fn s(&self) -> String {
        self.as_str().to_string()
    }
    fn fname(&self) -> String {
        self.filename()
    }
    fn ext(&self) -> Option<String> {
        self.extension()
    }
    fn isroot(&self) -> bool {
        self.is_root()
    }
    fn same(&self, o: &Self) -> bool {
        self == o
    }
    fn err_path(&self, s: &str) -> Option<String> {
        self.join(s).err().map(|e| e.path().clone())
    }
}

/// Lexical resolution of `arg` against the canonical path `base` (the reference function).
pub fn resolve(base: &str, arg: &str) -> Result<String, ()> {
    if arg.is_empty() {
        return Ok(base.to_string());
    }
    if arg.len() > 1 && arg.ends_with('/') {
        return Err(());
    }
    let mut comps: Vec<&str> = if arg.starts_with('/') {
        vec![]
    } else {
        base.split('/').filter(|c| !c.is_empty()).collect()
    };
    for c in arg.split('/') {
        match c {
            "" | "." => {}
            ".." => {
                comps.pop();
            }
            x => comps.push(x),
        }
    }
    Ok(comps.iter().map(|c| format!("/{}", c)).collect())
}

fn canonical(s: &str) -> bool {
    s.is_empty()
        || (s.starts_with('/')
            && s[1..]
                .split('/')
                .all(|c| !c.is_empty() && c != "." && c != ".."))
}

fn ref_parent(s: &str) -> String {
    match s.rfind('/') {
        Some(i) => s[..i].to_string(),
        None => String::new(),
    }
}

fn ref_filename(s: &str) -> String {
    match s.rfind('/') {
        Some(i) => s[i + 1..].to_string(),
        None => s.to_string(),
    }
}

fn ref_extension(s: &str) -> Option<String> {
    let f = ref_filename(s);
    match f.rfind('.') {
        Some(i) if i > 0 => Some(f[i + 1..].to_string()),
        _ => None,
    }
}

fn strings(sigma: &[char], max_len: usize) -> Vec<String> {
    let mut out = vec![String::new()];
    let mut level = vec![String::new()];
    for _ in 0..max_len {
        let mut next = Vec::with_capacity(level.len() * sigma.len());
        for s in &level {
            for c in sigma {
                let mut t = s.clone();
                t.push(*c);
                next.push(t);
            }
        }
        out.extend(next.iter().cloned());
        level = next;
    }
    out
}

struct Found {
    sig: String,
    what: String,
}

fn check_join<P: PathVal>(
    api: &str,
    basep: &P,
    base: &str,
    arg: &str,
    out: &mut Vec<Found>,
    classes: &mut HashSet<String>,
) {
    let want = resolve(base, arg);
    let got = guard(|| basep.j(arg));
    let shape = arg_shape(arg);
    let f = |tail: &str, what: String| Found {
        sig: format!("{}|join|{}|{}", api, shape, tail),
        what: format!("{}: join({:?}) on base {:?}: {}", api, arg, base, what),
    };
    match (&want, &got) {
        (_, Err(m)) => out.push(f("panic", format!("panicked: {}", m))),
        (Err(()), Ok(Err(true))) => {
            classes.insert(format!("{}:rejected", shape));
            // the error names the caller supplied argument
            if let Ok(Some(p)) = guard(|| basep.err_path(arg)) {
                if p != arg {
                    out.push(f(
                        "error-path",
                        format!("InvalidPath error carries path {:?}", p),
                    ));
                }
            }
        }
        (Err(()), Ok(Err(false))) => out.push(f(
            "wrong-error-kind",
            "rejected with a kind other than InvalidPath".into(),
        )),
        (Err(()), Ok(Ok(r))) => out.push(f(
            "accepted-trailing-slash",
            format!("returned {:?} for an argument with a trailing slash", r.s()),
        )),
        (Ok(_), Ok(Err(_))) => out.push(f(
            "rejected-valid",
            "rejected although the argument has no trailing slash".into(),
        )),
        (Ok(w), Ok(Ok(r))) => {
            let s = r.s();
            classes.insert(format!(
                "{}:{}",
                shape,
                if s.is_empty() {
                    "root"
                } else if s.len() < base.len() {
                    "shorter"
                } else {
                    "other"
                }
            ));
            if s != *w {
                out.push(f(
                    "wrong-result",
                    format!("returned {:?}, lexical resolution gives {:?}", s, w),
                ));
            } else {
                // (the accessors run under a guard of their own: a panic in one of them is a
                // finding about that accessor, not the end of the sweep)
                let sub = guard(|| {
                let mut out: Vec<Found> = vec![];
                if !canonical(&s) {
                    out.push(f("not-canonical", format!("returned {:?}", s)));
                }
                if r.isroot() != s.is_empty() {
                    out.push(f(
                        "is_root",
                        format!("is_root() = {} for {:?}", r.isroot(), s),
                    ));
                }
                if r.par().s() != ref_parent(&s) {
                    out.push(f(
                        "parent",
                        format!("parent() of {:?} = {:?}", s, r.par().s()),
                    ));
                }
                if r.fname() != ref_filename(&s) {
                    out.push(f(
                        "filename",
                        format!("filename() of {:?} = {:?}", s, r.fname()),
                    ));
                }
                if r.ext() != ref_extension(&s) {
                    out.push(f(
                        "extension",
                        format!(
                            "extension() of {:?} = {:?}, expected {:?}",
                            s,
                            r.ext(),
                            ref_extension(&s)
                        ),
                    ));
                }
                if !r.rt().s().is_empty() || !r.rt().isroot() {
                    out.push(f("root", format!("root() of {:?} = {:?}", s, r.rt().s())));
                }
                // equality: same instance, same string
                if let Ok(Ok(again)) = guard(|| basep.rt().j(&s)) {
                    if !again.same(r) {
                        out.push(f(
                            "eq",
                            format!(
                                "{:?} reached by two routes on the same instance compares unequal",
                                s
                            ),
                        ));
                    }
                }
                if !s.is_empty() && r.same(&r.par()) {
                    out.push(f("eq", format!("{:?} equals its parent", s)));
                }
                out
                });
                match sub {
                    Ok(v) => out.extend(v),
                    Err(m) => out.push(f(
                        "accessor-panic",
                        format!("is_root/parent/filename/extension/root of {:?} panicked: {}", s, m),
                    )),
                }
            }
        }
    }
}

fn arg_shape(arg: &str) -> String {
    let mut v = vec![];
    if arg.is_empty() {
        return "empty".into();
    }
    if arg.starts_with('/') {
        v.push("abs");
    }
    if arg.ends_with('/') && arg.len() > 1 {
        v.push("trailing-slash");
    }
    if arg.split('/').any(|c| c == "..") {
        v.push("dotdot");
    }
    if arg.split('/').any(|c| c == ".") {
        v.push("dot");
    }
    if arg.contains("//") {
        v.push("empty-seg");
    }
    if arg.contains('é') || arg.contains('Я') || arg.contains('Į') {
        v.push("multibyte");
    }
    if arg
        .split('/')
        .any(|c| c.len() > 1 && c.contains('.') && c != "..")
    {
        v.push("dotted-name");
    }
    if v.is_empty() {
        v.push("plain");
    }
    v.join("+")
}

const SIGMA: [char; 5] = ['/', '.', 'a', 'b', 'é'];
const SIGMA_LOW_BYTE: [char; 6] = ['/', '.', 'a', 'é', 'Я', 'Į'];

fn sweep<P: PathVal>(
    api: &str,
    root: &P,
    other: &P,
    l: usize,
    l_assoc: usize,
    sigma: &[char],
) -> (u64, Vec<Found>, HashSet<String>) {
    // (the last two are 15 and 20 bytes long: word-at-a-time scans of long paths)
    let bases = ["", "/a", "/a/b", "/a.b", "/é/a", "/a/b/a", "/aaaa/bbbb/cccc", "/a/b/a/b/.a/b/a/b/a"];
    let args = strings(sigma, l);
    let short = strings(sigma, l_assoc);
    let res: Vec<(u64, Vec<Found>, HashSet<String>)> = bases
        .par_iter()
        .map(|base| {
            let mut out = vec![];
            let mut classes = HashSet::new();
            let mut n = 0u64;
            let bp = if base.is_empty() { root.clone() } else { root.j(&base[1..]).ok().expect("HARNESS: base") };
            if bp.s() != *base {
                out.push(Found { sig: format!("{}|base", api), what: format!("base {:?} became {:?}", base, bp.s()) });
            }
            for a in &args {
                check_join(api, &bp, base, a, &mut out, &mut classes);
                n += 1;
                if out.len() > 2000 {
                    break;
                }
            }
            // join(join(p,a),b) == join(p, a + "/" + b)   (a non-empty, b relative)
            for a in &short {
                if a.is_empty() {
                    continue;
                }
                let pa = match bp.j(a) {
                    Ok(x) => x,
                    Err(_) => continue,
                };
                for b in &short {
                    if b.starts_with('/') || b.is_empty() {
                        continue;
                    }
                    n += 1;
                    let sub = guard(|| {
                        let lhs = pa.j(b);
                        let rhs = bp.j(&format!("{}/{}", a, b));
                        if let (Ok(x), Ok(y)) = (&lhs, &rhs) {
                            if x.s() != y.s() || !x.same(y) {
                                return Some(Found { sig: format!("{}|join-associativity", api), what: format!("{}: join(join({:?},{:?}),{:?}) = {:?} but join({:?},{:?}) = {:?}", api, base, a, b, x.s(), base, format!("{}/{}", a, b), y.s()) });
                            }
                        }
                        None
                    });
                    match sub {
                        Ok(Some(f)) => out.push(f),
                        Ok(None) => {}
                        Err(m) => out.push(Found { sig: format!("{}|join-associativity|panic", api), what: format!("{}: join(join({:?},{:?}),{:?}) panicked: {}", api, base, a, b, m) }),
                    }
                }
            }
            // plain names: parent / filename round trip; equality across instances
            for name in ["a", "ab", "a.b", "é", ".a", "a.", "a..b", "…"] {
                n += 1;
                let joined = match guard(|| (bp.j(name), bp.j(name).ok().map(|c| (c.par(), c.fname())))) {
                    Ok((j, _)) => j,
                    Err(m) => {
                        out.push(Found { sig: format!("{}|child-roundtrip|panic", api), what: format!("{}: join({:?},{:?}) / parent / filename panicked: {}", api, base, name, m) });
                        continue;
                    }
                };
                match joined {
                    Ok(c) => {
                        if !c.par().same(&bp) || c.fname() != name {
                            out.push(Found { sig: format!("{}|child-roundtrip", api), what: format!("{}: join({:?},{:?}): parent {:?} filename {:?}", api, base, name, c.par().s(), c.fname()) });
                        }
                        let twin = if base.is_empty() { other.clone() } else { other.j(&base[1..]).ok().unwrap() };
                        if let Ok(c2) = twin.j(name) {
                            if c2.same(&c) || c2.s() != c.s() {
                                out.push(Found { sig: format!("{}|eq-across-instances", api), what: format!("{}: {:?} on two filesystem instances compares equal (or strings differ)", api, c.s()) });
                            }
                        }
                    }
                    Err(_) => out.push(Found { sig: format!("{}|plain-name-rejected", api), what: format!("{}: join({:?},{:?}) rejected", api, base, name) }),
                }
            }
            (n, out, classes)
        })
        .collect();
    let mut n = 0;
    let mut out = vec![];
    let mut classes = HashSet::new();
    for (a, b, c) in res {
        n += a;
        out.extend(b);
        classes.extend(c);
    }
    // equality matrix: the same few paths produced in every way the API offers (new, join, parent,
    // root, clone, `..`, absolute joins) on two instances: equal iff same instance and same string
    let routes = |r: &P| -> Vec<(String, P)> {
        let j = |x: &P, a: &str| x.j(a).ok().expect("HARNESS: route");
        let ab = j(r, "a/b");
        let a = j(r, "a");
        vec![
            ("new".to_string(), r.clone()),
            ("root.root()".to_string(), r.rt()),
            ("root.parent()".to_string(), r.par()),
            ("a.parent()".to_string(), a.par()),
            ("a.root()".to_string(), a.rt()),
            ("a/b.root()".to_string(), ab.rt()),
            ("a/b.parent().parent()".to_string(), ab.par().par()),
            ("a.join(..)".to_string(), j(&a, "..")),
            ("a/b.join(/)".to_string(), j(&ab, "/")),
            ("join(a)".to_string(), a.clone()),
            ("a/b.parent()".to_string(), ab.par()),
            ("a/b.join(..)".to_string(), j(&ab, "..")),
            ("a/b.join(/a)".to_string(), j(&ab, "/a")),
            ("root().join(a)".to_string(), j(&ab.rt(), "a")),
            ("join(a/b)".to_string(), ab.clone()),
            ("a.join(b)".to_string(), j(&a, "b")),
            ("a/b.root().join(a/b)".to_string(), j(&ab.rt(), "a/b")),
        ]
    };
    let mut vals: Vec<(usize, String, P)> = vec![];
    for (i, r) in [root, other].into_iter().enumerate() {
        for (how, v) in routes(r) {
            vals.push((i, how, v));
        }
    }
    for (i, how_x, x) in &vals {
        for (k, how_y, y) in &vals {
            n += 1;
            let want = i == k && x.s() == y.s();
            if x.same(y) != want {
                out.push(Found {
                    sig: format!(
                        "{}|equality-matrix|{}",
                        api,
                        if want {
                            "unequal-but-same-instance-and-string"
                        } else if i != k {
                            "equal-across-instances"
                        } else {
                            "equal-with-different-strings"
                        }
                    ),
                    what: format!(
                        "{}: {:?} via {} on instance {} == {:?} via {} on instance {} is {}",
                        api,
                        x.s(),
                        how_x,
                        i,
                        y.s(),
                        how_y,
                        k,
                        !want
                    ),
                });
            }
        }
    }
    (n, out, classes)
}

/// BFS over path values: states are canonical strings, transitions join(segment language) /
/// parent / root; every step is compared with the reference.
fn chains<P: PathVal>(api: &str, root: &P, depth: usize) -> (u64, u64, Vec<Found>) {
    let segs = ["..", ".", "a", "a.b", "é", ""];
    let mut lang: Vec<String> = vec![];
    let mut level: Vec<String> = vec![];
    for s in segs {
        level.push(s.to_string());
    }
    lang.extend(level.iter().cloned());
    for _ in 1..3 {
        let mut next = vec![];
        for base in &level {
            for s in segs {
                next.push(format!("{}/{}", base, s));
            }
        }
        lang.extend(next.iter().cloned());
        level = next;
    }
    let mut all = lang.clone();
    all.extend(lang.iter().map(|s| format!("/{}", s)));
    all.sort();
    all.dedup();
    let mut seen: BTreeSet<String> = BTreeSet::new();
    seen.insert(String::new());
    let mut frontier: Vec<P> = vec![root.clone()];
    let mut transitions = 0u64;
    let mut out = vec![];
    for _ in 0..depth {
        let mut next = vec![];
        for p in &frontier {
            let base = p.s();
            let mut dummy = HashSet::new();
            for a in &all {
                transitions += 1;
                check_join(api, p, &base, a, &mut out, &mut dummy);
                if let Ok(r) = p.j(a) {
                    if seen.insert(r.s()) {
                        next.push(r);
                    }
                }
            }
            for (name, r, want) in [
                ("parent", p.par(), ref_parent(&base)),
                ("root", p.rt(), String::new()),
            ] {
                transitions += 1;
                if r.s() != want {
                    out.push(Found {
                        sig: format!("{}|chain-{}", api, name),
                        what: format!("{}: {}() of {:?} = {:?}", api, name, base, r.s()),
                    });
                }
                if seen.insert(r.s()) {
                    next.push(r);
                }
            }
            if out.len() > 2000 {
                break;
            }
        }
        frontier = next;
    }
    (seen.len() as u64, transitions, out)
}

pub fn run_c06(ctx: &Ctx) -> i32 {
    let info = ctx.info("C06", "model_checking");
    let thorough = ctx.tier == Tier::Thorough;
    let l = if thorough { 8 } else { 7 };
    let la = if thorough { 4 } else { 3 };
    let depth = 3;
    let mut found = vec![];
    let mut classes: BTreeMap<String, u64> = BTreeMap::new();
    let r1 = VfsPath::new(MemoryFS::new());
    let r2 = VfsPath::new(MemoryFS::new());
    let (n1, mut f1, mut c1) = sweep("VfsPath", &r1, &r2, l, la, &SIGMA);
    println!(
        "  [VfsPath strings <= {} over {{/ . a b é}} x 8 bases] evaluations={} findings={}",
        l,
        n1,
        f1.len()
    );
    let a1 = AsyncVfsPath::new(AsyncMemoryFS::new());
    let a2 = AsyncVfsPath::new(AsyncMemoryFS::new());
    let (n2, mut f2, mut c2) = sweep("AsyncVfsPath", &a1, &a2, l, la, &SIGMA);
    // a second alphabet with characters whose code points end in the byte of '/' resp. '.'
    // ('Я' U+042F, 'Į' U+012E), shorter strings
    let l2 = if thorough { 6 } else { 5 };
    let (n1b, f1b, c1b) = sweep("VfsPath", &r1, &r2, l2, 2, &SIGMA_LOW_BYTE);
    let (n2b, f2b, c2b) = sweep("AsyncVfsPath", &a1, &a2, l2, 2, &SIGMA_LOW_BYTE);
    println!(
        "  [both path types, strings <= {} over {{/ . a é Я Į}}] evaluations={} findings={}",
        l2,
        n1b + n2b,
        f1b.len() + f2b.len()
    );
    let (n1, n2) = (n1 + n1b, n2 + n2b);
    f1.extend(f1b);
    f2.extend(f2b);
    c1.extend(c1b);
    c2.extend(c2b);
    println!(
        "  [AsyncVfsPath same] evaluations={} findings={}",
        n2,
        f2.len()
    );
    let (s3, t3, f3) = chains("VfsPath", &r1, depth);
    let (s4, t4, f4) = chains("AsyncVfsPath", &a1, depth);
    println!(
        "  [chains of join/parent/root to depth {}] states={} transitions={} findings={}",
        depth,
        s3 + s4,
        t3 + t4,
        f3.len() + f4.len()
    );
    // other backends share the same path type; equality needs two instances of each
    let mut extra = 0u64;
    for (label, p, q) in [
        (
            "Phys",
            VfsPath::new(vfs::PhysicalFS::new("/nonexistent-a")),
            VfsPath::new(vfs::PhysicalFS::new("/nonexistent-a")),
        ),
        (
            "Alt",
            VfsPath::new(vfs::AltrootFS::new(r1.join("x").unwrap())),
            VfsPath::new(vfs::AltrootFS::new(r1.join("x").unwrap())),
        ),
        (
            "Ov",
            VfsPath::new(vfs::OverlayFS::new(&[r1.clone()])),
            VfsPath::new(vfs::OverlayFS::new(&[r1.clone()])),
        ),
    ] {
        for a in strings(&['/', '.', 'a', 'é'], 4) {
            extra += 1;
            let mut dummy = HashSet::new();
            check_join(
                &format!("VfsPath[{}]", label),
                &p,
                "",
                &a,
                &mut found,
                &mut dummy,
            );
            if let (Ok(x), Ok(y)) = (p.join(&a), q.join(&a)) {
                if x == y || x != p.join(&a).unwrap() {
                    found.push(Found {
                        sig: format!("VfsPath[{}]|eq-across-instances", label),
                        what: format!("equality of {:?} on two {} instances", a, label),
                    });
                }
            }
        }
    }
    found.extend(f1);
    found.extend(f2);
    found.extend(f3);
    found.extend(f4);
    for c in c1.iter().chain(c2.iter()) {
        *classes.entry(c.clone()).or_insert(0) += 1;
    }
    let mut vio = vec![];
    let mut seen: BTreeMap<String, usize> = BTreeMap::new();
    for f in found {
        let c = seen.entry(f.sig.clone()).or_insert(0);
        *c += 1;
        if *c <= 2 {
            vio.push(Violation {
                property: "C06".into(),
                signature: f.sig,
                summary: f.what.clone(),
                replay: json!({"engine": "path", "case": f.what}),
            });
        }
    }
    let cov = json!({
        "states": (s3 + s4).max(1),
        "transitions": (t3 + t4 + n1 + n2 + extra).max(1),
        "traces_validated_against_impl": n1 + n2 + t3 + t4 + extra,
        "evaluations": n1 + n2 + t3 + t4 + extra,
        "distinct_nontrivial": classes.len(),
        "rule": format!("every argument string over {{'/', '.', 'a', 'b', 'é'}} of length <= {} joined onto 8 bases (two of them 15 and 20 bytes long), for VfsPath and AsyncVfsPath; associativity for all pairs of strings of length <= {}; BFS over path values with a 3-segment join language + parent + root to depth {}; every result compared with the lexical-resolution reference; classes = (argument shape, result class)", l, la, depth),
        "samples": ["a/../b", "/a/./é", "..//a.b", "a/", "/"],
        "exhaustive": true,
        "bounds": {"max_string_length": l, "associativity_max_length": la, "chain_depth": depth},
        "classes": classes,
        "not_covered": "strings longer than the bound (the property's 'randomly beyond the bound' part is sampling and deliberately not done)",
    });
    finish(ctx, &info, cov, &["alphabet {'/', '.', 'a', 'b', 'é'}; longer strings and other characters are not covered"], &vio)
}

/// Join on every string up to length `l`: only the findings about the invalid-path classification
/// (trailing slashes rejected as InvalidPath naming the argument, nothing else rejected) - C12.
pub fn invalid_path_sweep(l: usize) -> (u64, Vec<Violation>) {
    let r1 = VfsPath::new(MemoryFS::new());
    let r2 = VfsPath::new(MemoryFS::new());
    let (n1, f1, _) = sweep("VfsPath", &r1, &r2, l, 1, &SIGMA);
    let a1 = AsyncVfsPath::new(AsyncMemoryFS::new());
    let a2 = AsyncVfsPath::new(AsyncMemoryFS::new());
    let (n2, f2, _) = sweep("AsyncVfsPath", &a1, &a2, l, 1, &SIGMA);
    let mut seen = std::collections::BTreeSet::new();
    let v = f1
        .into_iter()
        .chain(f2)
        .filter(|f| ["accepted-trailing-slash", "wrong-error-kind", "error-path", "rejected-valid"].iter().any(|k| f.sig.contains(k)))
        .filter(|f| seen.insert(f.sig.clone()))
        .map(|f| Violation {
            property: "C12".into(),
            signature: f.sig.clone(),
            summary: f.what.clone(),
            replay: json!({"engine": "path", "finding": f.what}),
        })
        .collect();
    (n1 + n2, v)
}

/// Join on every string up to length `l` (VfsPath and AsyncVfsPath); only panics are returned (C13).
pub fn panic_sweep(l: usize) -> (u64, Vec<Violation>) {
    let r1 = VfsPath::new(MemoryFS::new());
    let r2 = VfsPath::new(MemoryFS::new());
    let (n1, mut f1, _) = sweep("VfsPath", &r1, &r2, l, 2, &SIGMA);
    f1.extend(sweep("VfsPath", &r1, &r2, 4, 1, &SIGMA_LOW_BYTE).1);
    let a1 = AsyncVfsPath::new(AsyncMemoryFS::new());
    let a2 = AsyncVfsPath::new(AsyncMemoryFS::new());
    let (n2, mut f2, _) = sweep("AsyncVfsPath", &a1, &a2, l, 2, &SIGMA);
    f2.extend(sweep("AsyncVfsPath", &a1, &a2, 4, 1, &SIGMA_LOW_BYTE).1);
    let v = f1
        .into_iter()
        .chain(f2)
        .filter(|f| f.sig.contains("panic"))
        .map(|f| Violation {
            property: "C13".into(),
            signature: f.sig,
            summary: f.what.clone(),
            replay: json!({"engine": "path", "case": f.what}),
        })
        .collect();
    (n1 + n2, v)
}
