//! C15: the async port is behaviourally identical to the sync API.

use super::*;
use crate::api::*;
use crate::asyncmc::*;
use crate::handle::{reader_steps, RStep, StepRes};
use crate::pair::*;
use crate::snapshot::snapshot;
use async_std::io::prelude::SeekExt;
use async_std::io::ReadExt;
use rayon::prelude::*;
use std::collections::BTreeMap;

pub fn port_pair(
    cfg: Cfg,
    order: Order,
    alpha: Alphabet,
    init: Init,
    label_extra: &str,
) -> PairSpace {
    let ops = alpha.all_ops();
    let (c1, i1) = (cfg.clone(), init.clone());
    let (c2, i2) = (cfg.clone(), init.clone());
    PairSpace {
        property: "C15".into(),
        label: format!("sync~async {}{}", cfg.label(), label_extra),
        mode: PairMode::Port,
        alphabet: alpha,
        ops,
        typed_domain: true,
        mk_a: Box::new(move || {
            Box::new(SyncSys {
                built: build(&c1, order, &i1),
                prefix: String::new(),
            })
        }),
        mk_b: Box::new(move || {
            Box::new(AsyncSys {
                built: abuild(&c2, order, &i2),
            })
        }),
        sig_counts: Default::default(),
    }
}

fn do_async_rstep(
    h: &mut Box<dyn vfs::async_vfs::SeekAndRead + Send + Unpin>,
    s: &RStep,
) -> StepRes {
    match guard(|| match s {
        RStep::Read(n) => {
            let mut buf = vec![0u8; *n];
            match block_on(h.read(&mut buf)) {
                Ok(k) if k <= *n => StepRes::Read(buf[..k].to_vec()),
                Ok(k) => StepRes::Panic(format!("read returned {} > buffer length {}", k, n)),
                Err(_) => StepRes::Err,
            }
        }
        RStep::Seek(p) => match block_on(h.seek(*p)) {
            Ok(pos) => StepRes::Pos(pos),
            Err(_) => StepRes::Err,
        },
        RStep::ReadExact(n) => {
            let mut buf = vec![0u8; *n];
            match block_on(h.read_exact(&mut buf)) {
                Ok(()) => StepRes::Read(buf),
                Err(_) => StepRes::Err,
            }
        }
        RStep::ReadToEnd => {
            let mut v = Vec::new();
            match block_on(h.read_to_end(&mut v)) {
                Ok(_) => StepRes::Read(v),
                Err(_) => StepRes::Err,
            }
        }
    }) {
        Ok(r) => r,
        Err(m) => StepRes::Panic(m),
    }
}

/// Reader scripts on async read handles against `Cursor` (the same oracle as the sync readers).
pub fn async_reader_scripts(
    cfg: &Cfg,
    base: usize,
    content: &[u8],
    depth: usize,
    vio: &mut Vec<Violation>,
) -> u64 {
    let mut steps = reader_steps(content.len() as i64);
    if !cfg.has_phys() {
        steps.extend(crate::handle::extreme_reader_steps());
    }
    let n = steps.len();
    let total = n.pow(depth as u32);
    let res: Vec<Vec<Violation>> = (0..n)
        .into_par_iter()
        .map(|first| {
            let mut local = vec![];
            let b = abuild(cfg, Order::Asc, &[(base, vec![("/f".to_string(), Node::File(content.to_vec()))])]);
            let file = b.root.join("f").unwrap();
            for rest in 0..total / n {
                let mut script = vec![steps[first]];
                let mut x = rest;
                for _ in 1..depth {
                    script.push(steps[x % n]);
                    x /= n;
                }
                let mut h = match block_on(file.open_file()) {
                    Ok(h) => h,
                    Err(e) => {
                        local.push(Violation { property: "C15".into(), signature: format!("async {}|reader|open-failed", cfg.label()), summary: e.to_string(), replay: json!({"engine": "async-reader"}) });
                        break;
                    }
                };
                let mut model = std::io::Cursor::new(content);
                for (i, s) in script.iter().enumerate() {
                    let pos = model.position();
                    let want = crate::handle::do_rstep_pub(&mut model, s);
                    let got = do_async_rstep(&mut h, s);
                    // a short read (a non-empty prefix of what a cursor returns) is allowed by the Read
                    // contract: the same data is delivered, only in smaller pieces
                    if let (StepRes::Read(w), StepRes::Read(g)) = (&want, &got) {
                        if !g.is_empty() && g.len() < w.len() && w.starts_with(g) {
                            model.set_position(pos + g.len() as u64);
                            continue;
                        }
                    }
                    if want != got {
                        local.push(Violation {
                            property: "C15".into(),
                            signature: format!(
                                "async {}|reader|{}{}|exp={}|got={}",
                                cfg.label(),
                                crate::handle::step_name_pub(s),
                                if script[..i].contains(&RStep::Read(0)) { " after a zero-length read" } else { "" },
                                want.class_pub(),
                                got.class_pub()
                            ),
                            summary: format!("async reader on {} over {:?}: after {:?} the call {:?} at position {} returned {:?}, a sync reader / cursor returns {:?}", cfg.label(), String::from_utf8_lossy(content), &script[..i], s, pos, got, want),
                            replay: json!({"engine": "async-reader", "configuration": cfg.label(), "content": content, "script": format!("{:?}", &script[..=i])}),
                        });
                        break;
                    }
                    if matches!(s, RStep::ReadExact(_)) && want == StepRes::Err {
                        break;
                    }
                }
            }
            local
        })
        .collect();
    for v in res {
        vio.extend(v);
    }
    total as u64
}

/// All plans with at most `k` injected Pendings out of n await points.
fn plans(n: usize, k: usize) -> Vec<Vec<usize>> {
    let mut out: Vec<Vec<usize>> = vec![];
    for i in 0..n {
        out.push(vec![i]);
    }
    if k >= 2 {
        for i in 0..n {
            for j in (i + 1)..n {
                out.push(vec![i, j]);
            }
        }
    }
    if k >= 3 {
        for i in 0..n {
            for j in (i + 1)..n {
                for l in (j + 1)..n {
                    out.push(vec![i, j, l]);
                }
            }
        }
    }
    out
}

struct PlanStats {
    runs: u64,
    points: u64,
    classes: BTreeMap<String, u64>,
}

/// Poll schedules: every plan with <= k injected Pendings for walks and the composites built on
/// them, on every tree over the universe; the plan-free async run and the sync twin are the oracle.
fn poll_schedules(
    cfg: &Cfg,
    trees: &[Vec<(String, Node)>],
    init_base: usize,
    k: usize,
    vio: &mut Vec<Violation>,
) -> PlanStats {
    let ops: Vec<Op> = vec![
        Op::Walk("".into()),
        Op::Walk("/a".into()),
        Op::ReadDir("".into()),
        Op::ReadDir("/a".into()),
        Op::RemoveDirAll("/a".into()),
        Op::CopyDir("/a".into(), "/c".into()),
        Op::MoveDir("/a".into(), "/c".into()),
        Op::CopyFile("/b".into(), "/c".into()),
        Op::MoveFile("/b".into(), "/c".into()),
        Op::CreateDirAll("/a/b/c".into()),
        Op::ReadToString("/b".into()),
        Op::CreateFile("/a/n".into(), b"n".to_vec()),
        Op::Append("/b".into(), b"y".to_vec()),
    ];
    let probes: Vec<String> = u22()
        .paths
        .iter()
        .cloned()
        .chain([
            "/c".to_string(),
            "/c/a".to_string(),
            "/c/b".to_string(),
            "/a/n".to_string(),
            "/a/b/c".to_string(),
        ])
        .collect();
    let res: Vec<(u64, u64, BTreeMap<String, u64>, Vec<Violation>)> = trees
        .par_iter()
        .map(|tree| {
            let mut local = vec![];
            let mut runs = 0u64;
            let mut points = 0u64;
            let mut classes: BTreeMap<String, u64> = BTreeMap::new();
            let init: Init = vec![(init_base, tree.clone())];
            for op in &ops {
                // sync twin
                let sb = build(cfg, Order::Asc, &init);
                let sync_out = apply(&sb.root, op);
                let sync_snap = snapshot(&sb.root, &probes);
                // plan-free async run
                let run = |plan: &[usize]| {
                    let ab = abuild(cfg, Order::Asc, &init);
                    ab.ctl.arm(plan);
                    let out = apply(&ABlock(ab.root.clone()), op);
                    let n = ab.ctl.disarm();
                    let snap = snapshot(&ABlock(ab.root.clone()), &probes);
                    (out, n, snap)
                };
                let (out0, n, snap0) = run(&[]);
                runs += 1;
                points += n as u64;
                *classes.entry(format!("{}:{}:points={}", op.name(), out0.class(), n.min(40))).or_insert(0) += 1;
                let mk = |tail: &str, what: String, plan: &[usize]| Violation {
                    property: "C15".into(),
                    signature: format!("async {}|poll-plan|{}|{}", cfg.label(), op.name(), tail),
                    summary: format!("{} on async {} over tree {:?} with Pending injected at await points {:?} (of {}): {}", op.show(), cfg.label(), tree.iter().map(|(p, n)| format!("{}{}", p, if *n == Node::Dir { "/" } else { "" })).collect::<Vec<_>>(), plan, n, what),
                    replay: json!({"engine": "poll-plan", "configuration": cfg.label(), "tree": tree.iter().map(|(p, n)| json!({"path": p, "dir": *n == Node::Dir})).collect::<Vec<_>>(), "call": op.to_json(), "plan": plan}),
                };
                let same = |a: &Outcome, b: &Outcome| match (a, b) {
                    (Outcome::Ok(x), Outcome::Ok(y)) => x == y,
                    (Outcome::Err(x), Outcome::Err(y)) => x.kind == y.kind,
                    _ => false,
                };
                let same_sync = match (&out0, &sync_out) {
                    // walk items: same sequence (both sides list in ascending order)
                    (Outcome::Ok(x), Outcome::Ok(y)) => x == y,
                    (Outcome::Err(x), Outcome::Err(y)) => x.kind == y.kind,
                    _ => false,
                };
                if !same_sync {
                    local.push(mk("differs-from-sync", format!("async returned {} but sync returned {}", out0.short(), sync_out.short()), &[]));
                }
                if !snap0.same_tree(&sync_snap) {
                    local.push(mk("tree-differs-from-sync", format!("async tree {:?} vs sync tree {:?}", snap0.dump(), sync_snap.dump()), &[]));
                }
                for plan in plans(n, k) {
                    let (out, _, snap) = run(&plan);
                    runs += 1;
                    if !same(&out, &out0) {
                        local.push(mk("result-depends-on-polling", format!("returned {} but without Pending {}", out.short(), out0.short()), &plan));
                    } else if !snap.same_tree(&snap0) {
                        local.push(mk("effect-depends-on-polling", format!("tree {:?} but without Pending {:?}", snap.dump(), snap0.dump()), &plan));
                    }
                    if local.len() > 50 {
                        break;
                    }
                }
            }
            (runs, points, classes, local)
        })
        .collect();
    let mut st = PlanStats {
        runs: 0,
        points: 0,
        classes: BTreeMap::new(),
    };
    for (r, p, c, v) in res {
        st.runs += r;
        st.points += p;
        for (k, n) in c {
            *st.classes.entry(k).or_insert(0) += n;
        }
        vio.extend(v);
    }
    st
}

/// A directory vanishes while a walk is under way: every (tree, removed directory q, walker
/// position i); the async stream must yield exactly what the sync iterator yields (paths and
/// the positions of error items) - with no Pending and with one Pending at every await point.
fn walks_with_vanishing_dirs(
    cfg: &Cfg,
    trees: &[Vec<(String, Node)>],
    init_base: usize,
    with_plans: bool,
    vio: &mut Vec<Violation>,
) -> u64 {
    use futures::stream::StreamExt;
    let res: Vec<(u64, Vec<Violation>)> = trees
        .par_iter()
        .map(|tree| {
            let mut local = vec![];
            let mut runs = 0u64;
            let init: Init = vec![(init_base, tree.clone())];
            let dirs: Vec<String> = tree.iter().filter(|(_, n)| *n == Node::Dir).map(|(p, _)| p.clone()).collect();
            let total = tree.len();
            for q in &dirs {
                for i in 0..=total {
                    // sync reference
                    let sb = build(cfg, Order::Asc, &init);
                    let sync_items: Result<Vec<Result<String, Kind>>, String> = guard(|| {
                        let mut it = sb.root.walk_dir().unwrap();
                        let mut items = vec![];
                        for _ in 0..i {
                            match it.next() {
                                Some(x) => items.push(x.map(|p| p.as_str().to_string()).map_err(|e| einfo(&e).kind)),
                                None => break,
                            }
                        }
                        let _ = at(&sb.root, q).unwrap().remove_dir_all();
                        for x in it.by_ref().take(1000) {
                            items.push(x.map(|p| p.as_str().to_string()).map_err(|e| einfo(&e).kind));
                        }
                        items
                    });
                    let run_async = |plan: &[usize]| -> (Result<Vec<Result<String, Kind>>, String>, usize) {
                        let ab = abuild(cfg, Order::Asc, &init);
                        ab.ctl.arm(plan);
                        let r = guard(|| {
                            block_on(async {
                                let mut it = ab.root.walk_dir().await.unwrap();
                                let mut items = vec![];
                                for _ in 0..i {
                                    match it.next().await {
                                        Some(x) => items.push(x.map(|p| p.as_str().to_string()).map_err(|e| einfo(&e).kind)),
                                        None => break,
                                    }
                                }
                                let _ = ab.root.join(&q[1..]).unwrap().remove_dir_all().await;
                                let mut n = 0;
                                while let Some(x) = it.next().await {
                                    items.push(x.map(|p| p.as_str().to_string()).map_err(|e| einfo(&e).kind));
                                    n += 1;
                                    if n > 1000 {
                                        break;
                                    }
                                }
                                items
                            })
                        });
                        let n = ab.ctl.disarm();
                        (r, n)
                    };
                    let (a0, n) = run_async(&[]);
                    runs += 2;
                    let mk = |tail: &str, what: String, plan: &[usize]| Violation {
                        property: "C15".into(),
                        signature: format!("async {}|walk-with-vanishing-dir|{}", cfg.label(), tail),
                        summary: format!("walk_dir on {} over tree {:?}, remove_dir_all({:?}) after {} items, Pending at {:?}: {}", cfg.label(), tree.iter().map(|(p, n)| format!("{}{}", p, if *n == Node::Dir { "/" } else { "" })).collect::<Vec<_>>(), q, i, plan, what),
                        replay: json!({"engine": "walk-vanishing", "configuration": cfg.label(), "tree": tree.iter().map(|(p, n)| json!({"path": p, "dir": *n == Node::Dir})).collect::<Vec<_>>(), "removed": q, "after_items": i, "plan": plan}),
                    };
                    if let Err(m) = &a0 {
                        local.push(mk("panic", format!("the async walk panicked: {}", m), &[]));
                        continue;
                    }
                    if a0 != sync_items {
                        local.push(mk("differs-from-sync", format!("async yields {:?}, sync yields {:?}", a0, sync_items), &[]));
                        continue;
                    }
                    if with_plans {
                        for k in 0..n {
                            let (a, _) = run_async(&[k]);
                            runs += 1;
                            if let Err(m) = &a {
                                local.push(mk("panic", format!("the async walk panicked: {}", m), &[k]));
                                break;
                            }
                            if a != a0 {
                                local.push(mk("depends-on-polling", format!("yields {:?}, without Pending {:?}", a, a0), &[k]));
                                break;
                            }
                        }
                    }
                }
            }
            (runs, local)
        })
        .collect();
    let mut runs = 0;
    for (r, v) in res {
        runs += r;
        vio.extend(v);
    }
    runs
}

/// Contents beyond the small alphabets: a 300 001 byte file read with buffers larger than 64 KiB, and
/// texts whose multi-byte characters straddle the 8 KiB / 16 KiB marks, through `read_to_string`.
fn async_big_contents(vio: &mut Vec<Violation>) -> u64 {
    use async_std::io::prelude::{ReadExt as _, SeekExt as _};
    let mut n = 0u64;
    let ov = Cfg::Ov(vec![Cfg::Mem, Cfg::Mem]);
    for (cfg, base) in [(Cfg::Mem, 0usize), (Cfg::alt(Cfg::Mem, "/Z"), 0), (ov.clone(), 1), (Cfg::Phys, 0)] {
        let mk = |tail: &str, what: String| Violation {
            property: "C15".into(),
            signature: format!("async {}|big-contents|{}", cfg.label(), tail),
            summary: format!("async {}: {}", cfg.label(), what),
            replay: json!({"engine": "async-big-contents", "configuration": cfg.label(), "case": tail}),
        };
        // (a) bytes
        let content = crate::handle::pattern(300_001);
        let ab = abuild(&cfg, Order::Asc, &[(base, vec![("/f".to_string(), Node::File(content.clone()))])]);
        let f = ab.root.join("f").unwrap();
        n += 1;
        match guard(|| ABlock(f.clone()).read_all()) {
            Ok(Ok(g)) if g == content => {}
            other => vio.push(mk("read_to_end", format!("read_to_end of a 300001 byte file returned {:?}", other.map(|r| r.map(|g| g.len()).map_err(|e| e.display))))),
        }
        for bs in [65_537usize, 100_000, 300_001, 400_000] {
            n += 1;
            let r = guard(|| {
                block_on(async {
                    let mut h = f.open_file().await.map_err(|e| e.to_string())?;
                    let mut out = vec![];
                    let mut buf = vec![0u8; bs];
                    loop {
                        let k = h.read(&mut buf).await.map_err(|e| e.to_string())?;
                        if k == 0 {
                            break;
                        }
                        out.extend_from_slice(&buf[..k]);
                        let pos = h.seek(std::io::SeekFrom::Current(0)).await.map_err(|e| e.to_string())?;
                        if pos != out.len() as u64 {
                            return Err(format!("after delivering {} bytes the position is {}", out.len(), pos));
                        }
                    }
                    Ok::<Vec<u8>, String>(out)
                })
            });
            match r {
                Ok(Ok(g)) if g == content => {}
                other => vio.push(mk("reads-with-a-large-buffer", format!("reading with a {} byte buffer: {:?}", bs, other.map(|r| r.map(|g| g.len()))))),
            }
        }
        // (b) texts
        for at in [8189usize, 8190, 8191, 8192, 16381, 16383] {
            for ch in ['é', '€', '😀'] {
                let mut text = "a".repeat(at);
                text.push(ch);
                text.push_str(&"b".repeat(9000));
                let ab = abuild(&cfg, Order::Asc, &[(base, vec![("/t".to_string(), Node::File(text.clone().into_bytes()))])]);
                n += 1;
                match guard(|| ABlock(ab.root.join("t").unwrap()).read_to_string()) {
                    Ok(Ok(g)) if g == text => {}
                    other => vio.push(mk("read_to_string", format!("a {} byte character at offset {}: read_to_string returned {:?}", ch.len_utf8(), at, other.map(|r| r.map(|g| g.len()).map_err(|e| e.display))))),
                }
            }
        }
    }
    n
}

/// Hostile directory contents (symlinks of every kind, created behind the backend's back): the
/// physical backends of both worlds must answer every call with the same outcome class.
fn hostile_disk_pairs(vio: &mut Vec<Violation>) -> u64 {
    let kinds = ["dangling-symlink", "symlink-loop", "symlink-to-dir", "symlink-to-file"];
    let calls = ["create_dir", "create_dir_all", "create_file", "append_file", "exists", "metadata", "is_dir", "read_dir", "open_file", "remove_file", "remove_dir", "read_dir(parent)", "walk_dir(parent)"];
    let targets = ["the entry", "a child below it"];
    fn plant(root: &std::path::Path, kind: &str) {
        let p = root.join("p");
        std::fs::create_dir_all(&p).unwrap();
        std::fs::create_dir_all(root.join("realdir/sub")).unwrap();
        std::fs::write(root.join("realfile"), b"real").unwrap();
        std::fs::write(p.join("plain"), b"plain").unwrap();
        let link = p.join("link");
        let to: std::path::PathBuf = match kind {
            "dangling-symlink" => root.join("nowhere"),
            "symlink-loop" => link.clone(),
            "symlink-to-dir" => root.join("realdir"),
            _ => root.join("realfile"),
        };
        std::os::unix::fs::symlink(to, &link).unwrap();
    }
    fn run<P: PathApi>(root: &P, call: &str, target: &str) -> String {
        let path = if target == "the entry" { "p/link" } else { "p/link/child" };
        let r = guard(|| -> R<String> {
            let x = root.join(path)?;
            let parent = root.join("p")?;
            Ok(match call {
                "create_dir" => x.create_dir().map(|_| "unit".to_string())?,
                "create_dir_all" => x.create_dir_all().map(|_| "unit".to_string())?,
                "create_file" => x.write_file(b"w").map(|_| "unit".to_string())?,
                "append_file" => x.append(b"w").map(|_| "unit".to_string())?,
                "exists" => format!("{}", x.exists()?),
                "metadata" => format!("{:?}", x.metadata().map(|m| (m.ftype, m.len))?),
                "is_dir" => format!("{}", x.is_dir()?),
                "read_dir" => format!("{:?}", { let mut l: Vec<String> = x.read_dir()?.iter().map(|c| c.as_string()).collect(); l.sort(); l }),
                "open_file" => format!("{:?}", x.read_all()?),
                "remove_file" => x.remove_file().map(|_| "unit".to_string())?,
                "remove_dir" => x.remove_dir().map(|_| "unit".to_string())?,
                "read_dir(parent)" => format!("{:?}", { let mut l: Vec<String> = parent.read_dir()?.iter().map(|c| c.as_string()).collect(); l.sort(); l }),
                _ => format!("{:?}", { let mut l: Vec<String> = parent.walk()?.into_iter().map(|i| i.map(|c| c.as_string()).unwrap_or_else(|e| format!("ERR({})", e.kind.name()))).collect(); l.sort(); l }),
            })
        });
        match r {
            Ok(Ok(v)) => format!("Ok({})", v),
            Ok(Err(e)) => format!("Err({})", e.kind.name()),
            Err(m) => format!("Panic({})", m),
        }
    }
    let mut n = 0u64;
    for kind in kinds {
        for call in calls {
            for target in targets {
                let sb = build(&Cfg::Phys, Order::Asc, &vec![]);
                let ab = abuild(&Cfg::Phys, Order::Asc, &[]);
                plant(&sb.phys_outer_dirs()[0].join("root"), kind);
                plant(&ab.phys_outer_dirs()[0].join("root"), kind);
                let s = run(&sb.root, call, target);
                let a = run(&ABlock(ab.root.clone()), call, target);
                n += 1;
                if s != a {
                    vio.push(Violation {
                        property: "C15".into(),
                        signature: format!("sync~async Phys|hostile-disk|{}|{}|{}|sync={}|async={}", kind, call, target, s.split('(').next().unwrap_or(""), a.split('(').next().unwrap_or("")),
                        summary: format!("a {} in a directory of the physical backend, {} on {}: sync {}, async {}", kind, call, target, s, a),
                        replay: json!({"engine": "hostile-disk-pair", "content": kind, "call": call, "target": target}),
                    });
                }
            }
        }
    }
    n
}

/// Write sessions observed while the handle is still open: after opening it, after a write,
/// after a flush and after the drop the sync and the async world must show the same length and
/// bytes to a fresh reader.
fn session_phases(cfg: &Cfg, base: usize, vio: &mut Vec<Violation>) -> u64 {
    use async_std::io::WriteExt;
    use std::io::Write;
    let mut runs = 0u64;
    for prior in [None, Some(&b""[..]), Some(&b"old bytes"[..])] {
        for append in [false, true] {
            let init: Init = match prior {
                Some(b) => vec![(base, vec![("/f".to_string(), Node::File(b.to_vec()))])],
                None => vec![],
            };
            let sb = build(cfg, Order::Asc, &init);
            let ab = abuild(cfg, Order::Asc, &init);
            let sp = sb.root.join("f").unwrap();
            let ap = ab.root.join("f").unwrap();
            let observe_s = || {
                (
                    PathApi::exists(&sp).ok(),
                    PathApi::metadata(&sp).ok().map(|m| m.len),
                    PathApi::read_all(&sp).ok(),
                )
            };
            let observe_a = || {
                let x = ABlock(ap.clone());
                (
                    x.exists().ok(),
                    x.metadata().ok().map(|m| m.len),
                    x.read_all().ok(),
                )
            };
            let mut sh = if append {
                sp.append_file().ok()
            } else {
                sp.create_file().ok()
            };
            let mut ah = block_on(async {
                if append {
                    ap.append_file().await.ok()
                } else {
                    ap.create_file().await.ok()
                }
            });
            let mut phases: Vec<(&str, _, _)> = vec![];
            runs += 1;
            if sh.is_some() != ah.is_some() {
                vio.push(Violation {
                    property: "C15".into(),
                    signature: format!("async {}|write-session|open-outcome-differs", cfg.label()),
                    summary: format!(
                        "{} on {} with prior {:?}: sync opened = {}, async opened = {}",
                        if append { "append_file" } else { "create_file" },
                        cfg.label(),
                        prior,
                        sh.is_some(),
                        ah.is_some()
                    ),
                    replay: json!({"engine": "session-phases"}),
                });
                continue;
            }
            phases.push(("after-open", observe_s(), observe_a()));
            if let (Some(s), Some(a)) = (sh.as_mut(), ah.as_mut()) {
                let _ = s.write_all(b"new");
                let _ = block_on(a.write_all(b"new"));
                // (what a reader sees between a write and the next flush is up to the handle's
                // buffering - async-std's File buffers, std's does not - and is not compared)
                let _ = s.flush();
                let _ = block_on(a.flush());
                phases.push(("after-flush", observe_s(), observe_a()));
            }
            drop(sh);
            drop(ah);
            phases.push(("after-drop", observe_s(), observe_a()));
            for (name, s, a) in phases {
                if s != a {
                    vio.push(Violation {
                        property: "C15".into(),
                        signature: format!("async {}|write-session|{}|{}|{}", cfg.label(), if append { "append" } else { "create" }, match prior { None => "prior=absent", Some(b) if b.is_empty() => "prior=empty", _ => "prior=bytes" }, name),
                        summary: format!("{} session on {} (prior content {:?}), {}: a fresh observation shows (exists, len, bytes) = {:?} in the sync world and {:?} in the async world", if append { "append" } else { "create" }, cfg.label(), prior.map(String::from_utf8_lossy), name, s, a),
                        replay: json!({"engine": "session-phases", "configuration": cfg.label(), "append": append, "prior": prior, "phase": name}),
                    });
                }
            }
        }
    }
    runs
}

pub fn run_c15(ctx: &Ctx) -> i32 {
    let info = ctx.info("C15", "model_checking");
    let thorough = ctx.tier == Tier::Thorough;
    // the library's async read_dir prints every entry with println!: keep the real stdout clean
    let quiet = Silence::start();
    let ov = Cfg::Ov(vec![Cfg::Mem, Cfg::Mem]);
    let lower: Init = vec![(
        1,
        vec![
            ("/a".to_string(), Node::Dir),
            ("/a/a".to_string(), Node::File(b"l".to_vec())),
            ("/b".to_string(), Node::File(b"l".to_vec())),
        ],
    )];
    // (a) lock-step
    let mut res = alphabet(
        Universe::new("U_res{a,a/b,d}", &["/a", "/a/b", "/d"]),
        &[b"x"],
        1,
        thorough,
    );
    res.residue = true;
    let mut spaces = vec![
        // what a refused call leaves behind (one refused call per history is a state of its own)
        port_pair(Cfg::Mem, Order::Asc, res.clone(), vec![], " after a refused call"),
        port_pair(
            ov.clone(),
            Order::Asc,
            res.clone(),
            vec![(1, vec![("/a".to_string(), Node::Dir), ("/a/b".to_string(), Node::File(b"l".to_vec()))])],
            " after a refused call",
        ),
        port_pair(
            Cfg::Mem,
            Order::Asc,
            alphabet(u22(), &[b"x"], 2, true),
            vec![],
            "",
        ),
        port_pair(
            Cfg::Mem,
            Order::Desc,
            alphabet(u4(), &[b"", b"x"], 2, true),
            vec![],
            " desc",
        ),
        port_pair(
            Cfg::alt(Cfg::Mem, "/Z"),
            Order::Asc,
            alphabet(u4(), &[b"x"], 1, true),
            vec![],
            "",
        ),
        port_pair(
            ov.clone(),
            Order::Asc,
            alphabet(u3(), &[b"x"], 2, true),
            vec![],
            " empty",
        ),
        port_pair(
            ov.clone(),
            Order::Asc,
            alphabet(u3(), &[b"x"], 2, true),
            lower.clone(),
            " populated",
        ),
        port_pair(
            Cfg::Phys,
            Order::Asc,
            alphabet(u3(), &[b"x"], 1, true),
            vec![],
            "",
        ),
        // names: prefix-sharing, dotted, multi-byte (byte offsets in the ported re-rooting code)
        port_pair(
            Cfg::Mem,
            Order::Asc,
            alphabet(u_names_small(), &[b"x"], 1, true),
            vec![],
            " names",
        ),
        port_pair(
            Cfg::Mem,
            Order::Asc,
            alphabet(
                Universe::new("U_mb{é,é/a,éa,éa/é}", &["/é", "/é/a", "/éa", "/éa/é"]),
                &[b"x"],
                1,
                true,
            ),
            vec![],
            " multi-byte",
        ),
        port_pair(
            Cfg::alt(Cfg::Mem, "/a"),
            Order::Asc,
            alphabet(u_names_small(), &[b"x"], 1, false),
            vec![],
            " names",
        ),
        // deeper stackings
        port_pair(
            Cfg::Ov(vec![Cfg::Mem, Cfg::Mem, Cfg::Mem]),
            Order::Asc,
            alphabet(u3(), &[b"x"], 1, true),
            vec![
                (1, vec![("/a".to_string(), Node::Dir)]),
                (
                    2,
                    vec![
                        ("/a/a".to_string(), Node::File(b"m".to_vec())),
                        ("/b".to_string(), Node::Dir),
                    ],
                ),
            ],
            " 3 layers",
        ),
        port_pair(
            ov.clone(),
            Order::Asc,
            alphabet(
                Universe::new("U_chain3{a,a/a,a/a/a}", &["/a", "/a/a", "/a/a/a"]),
                &[b"x"],
                1,
                true,
            ),
            vec![(
                1,
                vec![
                    ("/a".to_string(), Node::Dir),
                    ("/a/a".to_string(), Node::Dir),
                    ("/a/a/a".to_string(), Node::File(b"l".to_vec())),
                ],
            )],
            " chain in the lower layer",
        ),
        port_pair(
            Cfg::alt(ov.clone(), "/Z"),
            Order::Asc,
            alphabet(u3(), &[b"x"], 1, true),
            vec![],
            "",
        ),
        // a path that is a file in the middle layer and a directory with children in the bottom
        // layer (the file is served; after remove_file + create_dir the lower directory merges in)
        port_pair(
            Cfg::Ov(vec![Cfg::Mem, Cfg::Mem, Cfg::Mem]),
            Order::Asc,
            alphabet(u3(), &[b"x"], 1, true),
            vec![
                (1, vec![("/a".to_string(), Node::File(b"l".to_vec()))]),
                (2, vec![("/a".to_string(), Node::Dir), ("/a/a".to_string(), Node::File(b"mm".to_vec())), ("/b".to_string(), Node::Dir)]),
            ],
            " file over directory",
        ),
        // layers that are directories of one filesystem
        port_pair(
            Cfg::OvShared(Box::new(Cfg::Mem), vec!["/upper".to_string(), "/lower/x".to_string()]),
            Order::Asc,
            alphabet(u3(), &[b"x"], 1, true),
            vec![(1, vec![("/a".to_string(), Node::Dir), ("/a/a".to_string(), Node::File(b"l".to_vec()))])],
            " shared filesystem",
        ),
    ];
    if thorough {
        spaces.push(port_pair(
            Cfg::Mem,
            Order::Asc,
            alphabet(u22(), &[b"", b"x"], 2, true),
            vec![],
            " W2",
        ));
        spaces.push(port_pair(
            Cfg::Mem,
            Order::Asc,
            alphabet(u_names(), &[b"x"], 1, true),
            vec![],
            " names",
        ));
        spaces.push(port_pair(
            Cfg::Phys,
            Order::Asc,
            alphabet(u22(), &[b"x"], 1, true),
            vec![],
            " U22",
        ));
        spaces.push(port_pair(
            Cfg::alt(Cfg::Phys, "/Z"),
            Order::Asc,
            alphabet(u4(), &[b"x"], 1, true),
            vec![],
            "",
        ));
        spaces.push(port_pair(
            ov.clone(),
            Order::Asc,
            alphabet(u4(), &[b"x"], 2, true),
            lower.clone(),
            " populated U4",
        ));
        spaces.push(port_pair(
            Cfg::Ov(vec![Cfg::Mem, Cfg::Mem, Cfg::Mem]),
            Order::Asc,
            alphabet(u4(), &[b"x"], 1, true),
            vec![
                (1, vec![("/a".to_string(), Node::Dir)]),
                (
                    2,
                    vec![
                        ("/a/a".to_string(), Node::File(b"m".to_vec())),
                        ("/b".to_string(), Node::Dir),
                    ],
                ),
            ],
            " 3 layers U4",
        ));
        spaces.push(port_pair(
            Cfg::alt(ov.clone(), "/Z"),
            Order::Asc,
            alphabet(u4(), &[b"x"], 1, true),
            lower.clone(),
            " populated",
        ));
    }
    let lim = limits(ctx);
    let mut stats = vec![];
    let mut vio = vec![];
    for s in spaces {
        let (st, v) = bfs(&s, &lim);
        quiet.say(&format!(
            "  [{}] states={} transitions={} depth={} fixpoint={} violations={}/{} ({:.1}s)",
            st.label,
            st.states,
            st.transitions,
            st.max_depth,
            st.fixpoint,
            v.len(),
            st.vio_counts.values().sum::<u64>(),
            st.wall_s
        ));
        stats.push(st);
        vio.extend(v);
    }
    // (b) reader scripts
    let depth = if thorough { 4 } else { 3 };
    let mut scripts = 0u64;
    for (cfg, base) in [
        (Cfg::Mem, 0),
        (Cfg::alt(Cfg::Mem, "/Z"), 0),
        (ov.clone(), 1),
        (Cfg::Phys, 0),
    ] {
        for c in [&b""[..], &b"a"[..], &b"abcd"[..]] {
            scripts += async_reader_scripts(&cfg, base, c, depth, &mut vio);
        }
    }
    quiet.say(&format!(
        "  [async reader scripts depth {}] scripts={} violations so far={}",
        depth,
        scripts,
        vio.len()
    ));
    // (c) poll schedules
    let trees: Vec<Vec<(String, Node)>> = trees_over(&u22().paths, b"x");
    let k = 2;
    let ps1 = poll_schedules(&Cfg::Mem, &trees, 0, k, &mut vio);
    quiet.say(&format!(
        "  [poll plans <= {} Pendings, async Mem, {} trees] runs={} await points={}",
        k,
        trees.len(),
        ps1.runs,
        ps1.points
    ));
    let small: Vec<Vec<(String, Node)>> = trees_over(&u3().paths, b"l");
    let ps2 = poll_schedules(&ov, &small, 1, if thorough { 2 } else { 1 }, &mut vio);
    quiet.say(&format!("  [poll plans, async Ov[Mem,Mem] with the tree in the lower layer, {} trees] runs={} await points={}", small.len(), ps2.runs, ps2.points));
    // (d) directories vanishing mid-walk
    let vr1 = walks_with_vanishing_dirs(&Cfg::Mem, &trees, 0, true, &mut vio);
    let vr2 = walks_with_vanishing_dirs(&Cfg::alt(Cfg::Mem, "/Z"), &small, 0, false, &mut vio);
    let vr3 = walks_with_vanishing_dirs(&ov, &small, 1, thorough, &mut vio);
    quiet.say(&format!("  [walks with a directory vanishing at every walker position, sync vs async (+1 Pending at every await point)] runs={}", vr1 + vr2 + vr3));
    // (h) contents beyond the small alphabets
    let bc = async_big_contents(&mut vio);
    quiet.say(&format!("  [300001 byte file with read buffers > 64 KiB; multi-byte characters across the 8 / 16 KiB marks through read_to_string] cases={} violations so far={}", bc, vio.len()));
    // (g) symlinks of every kind on disk: same outcome classes from both physical backends
    let hd = hostile_disk_pairs(&mut vio);
    quiet.say(&format!("  [symlinks on disk x 13 calls x 2 targets, sync vs async physical backend] runs={} violations so far={}", hd, vio.len()));
    // (f) a read and a write handle on one file, opened / used / dropped / re-opened in every order
    // while the file is removed and re-created: same final state in both worlds
    let mut hi_panics = vec![];
    let mut hi_diffs = vec![];
    let mut hi_classes = std::collections::BTreeMap::new();
    let hi = super::panicprops::handle_interplay(3, &mut hi_panics, &mut hi_diffs, &mut hi_classes);
    quiet.say(&format!("  [reader + writer scripts with removals, final state sync vs async] scripts={} differences={}", hi, hi_diffs.len()));
    vio.extend(crate::handle::dedupe(hi_diffs));
    // (e) write sessions observed while the handle is open
    let mut sr = 0;
    for (cfg, base) in [
        (Cfg::Mem, 0),
        (Cfg::alt(Cfg::Mem, "/Z"), 0),
        (ov.clone(), 0),
        (ov.clone(), 1),
        (Cfg::Phys, 0),
    ] {
        sr += session_phases(&cfg, base, &mut vio);
    }
    quiet.say(&format!(
        "  [write sessions observed at open / write / flush / drop, sync vs async] sessions={}",
        sr
    ));
    let mut ps3 = PlanStats {
        runs: 0,
        points: 0,
        classes: BTreeMap::new(),
    };
    if thorough {
        let big: Vec<Vec<(String, Node)>> = trees_over(&u23().paths, b"x")
            .into_iter()
            .filter(|t| t.len() >= 9)
            .take(40)
            .collect();
        ps3 = poll_schedules(&Cfg::Mem, &big, 0, 3, &mut vio);
        quiet.say(&format!(
            "  [poll plans <= 3 Pendings, async Mem, {} large trees over U(2,3)] runs={}",
            big.len(),
            ps3.runs
        ));
    }
    drop(quiet);
    let mut xs = Stats {
        label: "async reader scripts + poll plans".into(),
        states: (trees.len() + small.len()) as u64,
        transitions: scripts + ps1.runs + ps2.runs + ps3.runs + vr1 + vr2 + vr3,
        fixpoint: true,
        ..Default::default()
    };
    for (k, v) in ps1
        .classes
        .iter()
        .chain(ps2.classes.iter())
        .chain(ps3.classes.iter())
    {
        *xs.counters.entry(k.clone()).or_insert(0) += v;
    }
    xs.nontrivial = xs.counters.len() as u64;
    xs.samples = vec![vec![
        "walk_dir(\"\") on {/a/, /a/a, /a/b/, /b} with Pending injected at await points [3, 7]"
            .into(),
    ]];
    stats.push(xs);
    let mut counts = BTreeMap::new();
    for st in &stats {
        for (k, v) in &st.vio_counts {
            *counts.entry(k.clone()).or_insert(0u64) += v;
        }
    }
    let vio = crate::handle::dedupe(vio);
    let cov = bfs_coverage(
        &stats,
        "(a) product BFS sync vs async (same configuration, same listing order, own single-threaded executor) with the PAIR alphabet: outcome classes, error kinds, observable trees; (b) every read/seek script of depth d on async read handles against Cursor; (c) for walk_dir / read_dir / remove_dir_all / copy_dir / move_dir / copy_file / move_file / create_dir_all / read_to_string / create / append on every tree over U(2,2): one run without injected Pending counting the n await points the wrapper owns, then every plan with 1 and every plan with 2 injected Pendings; results and trees must not depend on the plan and must equal the sync twin",
        json!({"poll_horizon": POLL_HORIZON}),
    );
    finish_counts(ctx, &info, cov, &["AsyncPhysicalFS only in lock-step outcome comparison (its Pendings come from async-std's blocking pool, which the harness does not own)", "timestamp setters are not part of the alphabet (AsyncPhysicalFS needs a tokio runtime for them)", "await points owned: entry of every AsyncFileSystem method and every item of a read_dir stream, at every level of the stack"], &vio, &counts)
}

/// C13: the async port under the same alphabets, every call under catch_unwind; only panics are
/// returned (what the calls answer is C15's business).
pub fn panic_sweep(ctx: &Ctx) -> (u64, Vec<Violation>) {
    let quiet = Silence::start();
    let ov = Cfg::Ov(vec![Cfg::Mem, Cfg::Mem]);
    let lower: Init = vec![(
        1,
        vec![
            ("/a".to_string(), Node::Dir),
            ("/a/a".to_string(), Node::File(b"l".to_vec())),
            ("/b".to_string(), Node::File(b"l".to_vec())),
        ],
    )];
    let mut spaces = vec![
        port_pair(
            Cfg::Mem,
            Order::Asc,
            alphabet(u4(), &[b"x"], 2, true),
            vec![],
            " (panic sweep)",
        ),
        port_pair(
            Cfg::alt(Cfg::Mem, "/Z"),
            Order::Asc,
            alphabet(u3(), &[b"x"], 1, true),
            vec![],
            " (panic sweep)",
        ),
        port_pair(
            ov.clone(),
            Order::Asc,
            alphabet(u3(), &[b"x"], 1, true),
            lower,
            " (panic sweep)",
        ),
        port_pair(
            Cfg::Mem,
            Order::Asc,
            alphabet(u_names_small(), &[b"x"], 1, true),
            vec![],
            " names (panic sweep)",
        ),
    ];
    for s in &mut spaces {
        s.typed_domain = false; // calls of the wrong type and on the root included
    }
    let lim = limits(ctx);
    let mut n = 0u64;
    let mut vio = vec![];
    for s in spaces {
        let (st, v) = bfs(&s, &lim);
        n += st.transitions;
        vio.extend(v);
    }
    for (cfg, base) in [
        (Cfg::Mem, 0),
        (ov.clone(), 1),
        (Cfg::alt(Cfg::Mem, "/Z"), 0),
    ] {
        for c in [&b""[..], &b"abcd"[..]] {
            n += async_reader_scripts(&cfg, base, c, 3, &mut vio);
        }
    }
    // the timestamp setters of the physical async backend under an executor that is not tokio
    for cfg in [Cfg::Phys, Cfg::alt(Cfg::Phys, "/Z"), Cfg::Ov(vec![Cfg::Phys, Cfg::Phys])] {
        let ab = abuild(&cfg, Order::Asc, &[(0, vec![("/f".to_string(), Node::File(b"x".to_vec())), ("/d".to_string(), Node::Dir)])]);
        for p in ["/f", "/d", "", "/absent"] {
            for k in 0..3u8 {
                n += 1;
                if let Outcome::Panic(m) = apply(&ABlock(ab.root.clone()), &Op::SetTime(p.to_string(), k)) {
                    vio.push(Violation {
                        property: "C13".into(),
                        signature: format!("async {}|{}|panic|{}", cfg.label(), Op::SetTime(p.to_string(), k).name(), m.split(" @ ").last().unwrap_or("")),
                        summary: format!("{} on {:?} of async {} panicked: {}", Op::SetTime(p.to_string(), k).name(), p, cfg.label(), m),
                        replay: json!({"engine": "async-setters", "configuration": cfg.label(), "path": p, "field": k}),
                    });
                }
            }
        }
    }
    // walks in which a listed directory vanishes at every walker position (one Pending everywhere)
    let trees: Vec<Vec<(String, Node)>> = trees_over(&u22().paths, b"x");
    n += walks_with_vanishing_dirs(&Cfg::Mem, &trees, 0, true, &mut vio);
    drop(quiet);
    let v = vio
        .into_iter()
        .filter(|x| x.signature.contains("panic") || x.signature.contains("Panic"))
        .map(|mut x| {
            x.property = "C13".into();
            x
        })
        .collect();
    (n, v)
}
