//! Backend configurations (stackings), environment wrappers, construction of live systems.

use crate::api::PathApi;
use crate::model::Node;
use std::fmt::Debug;
use std::sync::atomic::{AtomicBool, AtomicUsize, Ordering};
use std::sync::{Arc, Mutex};
use std::time::SystemTime;
use vfs::error::VfsErrorKind;
use vfs::{
    AltrootFS, FileSystem, MemoryFS, OverlayFS, PhysicalFS, SeekAndRead, SeekAndWrite, VfsMetadata,
    VfsPath, VfsResult,
};

#[derive(Clone, Debug, PartialEq, Eq, Hash)]
pub enum Cfg {
    Mem,
    Phys,
    Alt(Box<Cfg>, String),
    Ov(Vec<Cfg>),
    /// a directory *inside* another filesystem used directly as an overlay layer (a `VfsPath`
    /// with a non-empty path, no AltrootFS in between); `true`: the directory exists
    Sub(Box<Cfg>, String, bool),
    /// an overlay whose layers are several directories of ONE filesystem (the way the crate's own
    /// tests build overlays: `root.join("upper")`, `root.join("lower")`)
    OvShared(Box<Cfg>, Vec<String>),
}

impl Cfg {
    pub fn label(&self) -> String {
        match self {
            Cfg::Mem => "Mem".into(),
            Cfg::Phys => "Phys".into(),
            Cfg::Alt(s, p) => format!(
                "Alt({},{})",
                s.label(),
                if p.is_empty() { "\"\"" } else { p }
            ),
            Cfg::Ov(l) => format!(
                "Ov[{}]",
                l.iter().map(|c| c.label()).collect::<Vec<_>>().join(",")
            ),
            Cfg::OvShared(s, dirs) => format!("OvShared({})[{}]", s.label(), dirs.join(",")),
            Cfg::Sub(s, p, true) => format!("Sub({},{})", s.label(), p),
            Cfg::Sub(s, p, false) => format!("SubAbsent({},{})", s.label(), p),
        }
    }
    pub fn sub(s: Cfg, p: &str) -> Cfg {
        Cfg::Sub(Box::new(s), p.to_string(), true)
    }
    pub fn alt(s: Cfg, p: &str) -> Cfg {
        Cfg::Alt(Box::new(s), p.to_string())
    }
    pub fn has_phys(&self) -> bool {
        match self {
            Cfg::Mem => false,
            Cfg::Phys => true,
            Cfg::Alt(s, _) | Cfg::Sub(s, _, _) | Cfg::OvShared(s, _) => s.has_phys(),
            Cfg::Ov(l) => l.iter().any(|c| c.has_phys()),
        }
    }
    pub fn has_overlay(&self) -> bool {
        match self {
            Cfg::Mem | Cfg::Phys => false,
            Cfg::Alt(s, _) | Cfg::Sub(s, _, _) => s.has_overlay(),
            Cfg::Ov(_) | Cfg::OvShared(..) => true,
        }
    }
    /// Parses labels such as `Ov[Alt(Mem,/Z),Mem]`.
    pub fn parse(s: &str) -> Option<Cfg> {
        fn p(s: &[u8], i: &mut usize) -> Option<Cfg> {
            let rest = &s[*i..];
            if rest.starts_with(b"Mem") {
                *i += 3;
                Some(Cfg::Mem)
            } else if rest.starts_with(b"Phys") {
                *i += 4;
                Some(Cfg::Phys)
            } else if rest.starts_with(b"Alt(") {
                *i += 4;
                let inner = p(s, i)?;
                if s.get(*i) != Some(&b',') {
                    return None;
                }
                *i += 1;
                let st = *i;
                while *i < s.len() && s[*i] != b')' {
                    *i += 1;
                }
                let mut pre = String::from_utf8(s[st..*i].to_vec()).ok()?;
                if pre == "\"\"" {
                    pre.clear();
                }
                *i += 1;
                Some(Cfg::Alt(Box::new(inner), pre))
            } else if rest.starts_with(b"OvShared(") {
                *i += 9;
                let inner = p(s, i)?;
                if s.get(*i) != Some(&b')') || s.get(*i + 1) != Some(&b'[') {
                    return None;
                }
                *i += 2;
                let st = *i;
                while *i < s.len() && s[*i] != b']' {
                    *i += 1;
                }
                let dirs = String::from_utf8(s[st..*i].to_vec()).ok()?;
                *i += 1;
                Some(Cfg::OvShared(Box::new(inner), dirs.split(',').map(|d| d.to_string()).collect()))
            } else if rest.starts_with(b"Sub(") || rest.starts_with(b"SubAbsent(") {
                let exists = rest.starts_with(b"Sub(");
                *i += if exists { 4 } else { 10 };
                let inner = p(s, i)?;
                if s.get(*i) != Some(&b',') {
                    return None;
                }
                *i += 1;
                let st = *i;
                while *i < s.len() && s[*i] != b')' {
                    *i += 1;
                }
                let pre = String::from_utf8(s[st..*i].to_vec()).ok()?;
                *i += 1;
                Some(Cfg::Sub(Box::new(inner), pre, exists))
            } else if rest.starts_with(b"Ov[") {
                *i += 3;
                let mut v = vec![];
                loop {
                    v.push(p(s, i)?);
                    match s.get(*i) {
                        Some(b',') => *i += 1,
                        Some(b']') => {
                            *i += 1;
                            break;
                        }
                        _ => return None,
                    }
                }
                Some(Cfg::Ov(v))
            } else {
                None
            }
        }
        let mut i = 0;
        let c = p(s.as_bytes(), &mut i)?;
        if i == s.len() {
            Some(c)
        } else {
            None
        }
    }
}

#[derive(Clone, Copy, Debug, PartialEq, Eq)]
pub enum Order {
    Asc,
    Desc,
    Native,
}

#[derive(Clone, Debug, PartialEq, Eq)]
pub struct LogEntry {
    pub node: String,
    pub method: &'static str,
    pub path: String,
    pub dest: Option<String>,
    /// true if this call was made to fail by the fault injector
    pub injected: bool,
}

pub fn is_mutating(method: &str) -> bool {
    matches!(
        method,
        "create_dir"
            | "create_file"
            | "append_file"
            | "remove_file"
            | "remove_dir"
            | "set_creation_time"
            | "set_modification_time"
            | "set_access_time"
            | "copy_file"
            | "move_file"
            | "move_dir"
            | "handle.write"
    )
}

/// Shared control block of one live system.
#[derive(Debug)]
pub struct Ctl {
    pub armed: AtomicBool,
    pub log: Mutex<Vec<LogEntry>>,
    /// number of calls into underlying (non top-level) nodes while armed
    pub calls: AtomicUsize,
    /// 1-based positions of underlying calls that must fail (0 = none)
    pub fail_at: [AtomicUsize; 2],
    pub order: Order,
    /// set when one armed window made more than CALL_HORIZON calls: every further call fails, so
    /// that a runaway (non-terminating) operation winds down instead of eating all memory
    pub runaway: AtomicBool,
}

/// No operation over the tiny universes used here needs more than a few thousand calls.
pub const CALL_HORIZON: usize = 5_000;

impl Ctl {
    pub fn new(order: Order) -> Arc<Ctl> {
        Arc::new(Ctl {
            armed: AtomicBool::new(false),
            log: Mutex::new(vec![]),
            calls: AtomicUsize::new(0),
            fail_at: [AtomicUsize::new(0), AtomicUsize::new(0)],
            order,
            runaway: AtomicBool::new(false),
        })
    }
    pub fn arm(&self, fail_at: [usize; 2]) {
        self.log.lock().unwrap().clear();
        self.calls.store(0, Ordering::SeqCst);
        self.fail_at[0].store(fail_at[0], Ordering::SeqCst);
        self.fail_at[1].store(fail_at[1], Ordering::SeqCst);
        self.armed.store(true, Ordering::SeqCst);
    }
    pub fn disarm(&self) -> Vec<LogEntry> {
        self.armed.store(false, Ordering::SeqCst);
        std::mem::take(&mut *self.log.lock().unwrap())
    }
}

/// Sorting + recording + fault-injecting wrapper over any `FileSystem` (public trait only).
#[derive(Debug)]
pub struct Wrap {
    inner: Box<dyn FileSystem>,
    node: String,
    underlying: bool,
    ctl: Arc<Ctl>,
}

impl Wrap {
    fn pre(&self, method: &'static str, path: &str, dest: Option<&str>) -> VfsResult<()> {
        if !self.ctl.armed.load(Ordering::SeqCst) {
            return Ok(());
        }
        let mut injected = false;
        if self.underlying {
            let n = self.ctl.calls.fetch_add(1, Ordering::SeqCst) + 1;
            if n > CALL_HORIZON {
                self.ctl.runaway.store(true, Ordering::SeqCst);
                return Err(VfsErrorKind::Other("HARNESS: call horizon exceeded".into()).into());
            }
            if n == self.ctl.fail_at[0].load(Ordering::SeqCst)
                || n == self.ctl.fail_at[1].load(Ordering::SeqCst)
            {
                injected = true;
            }
        }
        self.ctl.log.lock().unwrap().push(LogEntry {
            node: self.node.clone(),
            method,
            path: path.to_string(),
            dest: dest.map(|s| s.to_string()),
            injected,
        });
        if injected {
            return Err(VfsErrorKind::IoError(std::io::Error::new(
                std::io::ErrorKind::Other,
                "injected fault",
            ))
            .into());
        }
        Ok(())
    }
}

/// Read / write handles returned through a `Wrap`: every read, write, seek and flush on them is
/// a call into the wrapped filesystem too (counted, recorded, and failed when the plan says so).
struct WrapHandle<H> {
    inner: H,
    node: String,
    underlying: bool,
    path: String,
    ctl: Arc<Ctl>,
}

impl<H> WrapHandle<H> {
    fn pre(&self, method: &'static str) -> std::io::Result<()> {
        if !self.ctl.armed.load(Ordering::SeqCst) {
            return Ok(());
        }
        let mut injected = false;
        if self.underlying {
            let n = self.ctl.calls.fetch_add(1, Ordering::SeqCst) + 1;
            if n > CALL_HORIZON {
                self.ctl.runaway.store(true, Ordering::SeqCst);
                return Err(std::io::Error::new(
                    std::io::ErrorKind::Other,
                    "HARNESS: call horizon exceeded",
                ));
            }
            if n == self.ctl.fail_at[0].load(Ordering::SeqCst)
                || n == self.ctl.fail_at[1].load(Ordering::SeqCst)
            {
                injected = true;
            }
        }
        self.ctl.log.lock().unwrap().push(LogEntry {
            node: self.node.clone(),
            method,
            path: self.path.clone(),
            dest: None,
            injected,
        });
        if injected {
            return Err(std::io::Error::new(
                std::io::ErrorKind::Other,
                "injected fault",
            ));
        }
        Ok(())
    }
}

// Every provided method is forwarded as well: a backend may override `read_to_end`, `read_exact`,
// `write_all`, ... on its handle types, and a wrapper that only forwards the required methods
// would silently replace those overrides by the default implementations.
impl<H: std::io::Read> std::io::Read for WrapHandle<H> {
    fn read(&mut self, buf: &mut [u8]) -> std::io::Result<usize> {
        self.pre("handle.read")?;
        self.inner.read(buf)
    }
    fn read_vectored(&mut self, bufs: &mut [std::io::IoSliceMut<'_>]) -> std::io::Result<usize> {
        self.pre("handle.read")?;
        self.inner.read_vectored(bufs)
    }
    fn read_to_end(&mut self, buf: &mut Vec<u8>) -> std::io::Result<usize> {
        self.pre("handle.read")?;
        self.inner.read_to_end(buf)
    }
    fn read_to_string(&mut self, buf: &mut String) -> std::io::Result<usize> {
        self.pre("handle.read")?;
        self.inner.read_to_string(buf)
    }
    fn read_exact(&mut self, buf: &mut [u8]) -> std::io::Result<()> {
        self.pre("handle.read")?;
        self.inner.read_exact(buf)
    }
}
impl<H: std::io::Write> std::io::Write for WrapHandle<H> {
    fn write(&mut self, buf: &[u8]) -> std::io::Result<usize> {
        self.pre("handle.write")?;
        self.inner.write(buf)
    }
    fn write_vectored(&mut self, bufs: &[std::io::IoSlice<'_>]) -> std::io::Result<usize> {
        self.pre("handle.write")?;
        self.inner.write_vectored(bufs)
    }
    fn write_all(&mut self, buf: &[u8]) -> std::io::Result<()> {
        self.pre("handle.write")?;
        self.inner.write_all(buf)
    }
    fn write_fmt(&mut self, fmt: std::fmt::Arguments<'_>) -> std::io::Result<()> {
        self.pre("handle.write")?;
        self.inner.write_fmt(fmt)
    }
    fn flush(&mut self) -> std::io::Result<()> {
        self.pre("handle.flush")?;
        self.inner.flush()
    }
}
impl<H: std::io::Seek> std::io::Seek for WrapHandle<H> {
    fn seek(&mut self, pos: std::io::SeekFrom) -> std::io::Result<u64> {
        self.pre("handle.seek")?;
        self.inner.seek(pos)
    }
    fn rewind(&mut self) -> std::io::Result<()> {
        self.pre("handle.seek")?;
        self.inner.rewind()
    }
    fn stream_position(&mut self) -> std::io::Result<u64> {
        self.pre("handle.seek")?;
        self.inner.stream_position()
    }
    fn seek_relative(&mut self, offset: i64) -> std::io::Result<()> {
        self.pre("handle.seek")?;
        self.inner.seek_relative(offset)
    }
}

impl Wrap {
    fn handle<H>(&self, inner: H, path: &str) -> WrapHandle<H> {
        WrapHandle {
            inner,
            node: self.node.clone(),
            underlying: self.underlying,
            path: path.to_string(),
            ctl: self.ctl.clone(),
        }
    }
}

impl FileSystem for Wrap {
    fn read_dir(&self, path: &str) -> VfsResult<Box<dyn Iterator<Item = String> + Send>> {
        self.pre("read_dir", path, None)?;
        let it = self.inner.read_dir(path)?;
        match self.ctl.order {
            Order::Native => Ok(it),
            Order::Asc => {
                let mut v: Vec<String> = it.collect();
                v.sort();
                Ok(Box::new(v.into_iter()))
            }
            Order::Desc => {
                let mut v: Vec<String> = it.collect();
                v.sort();
                v.reverse();
                Ok(Box::new(v.into_iter()))
            }
        }
    }
    fn create_dir(&self, path: &str) -> VfsResult<()> {
        self.pre("create_dir", path, None)?;
        self.inner.create_dir(path)
    }
    fn open_file(&self, path: &str) -> VfsResult<Box<dyn SeekAndRead + Send>> {
        self.pre("open_file", path, None)?;
        Ok(Box::new(self.handle(self.inner.open_file(path)?, path)))
    }
    fn create_file(&self, path: &str) -> VfsResult<Box<dyn SeekAndWrite + Send>> {
        self.pre("create_file", path, None)?;
        Ok(Box::new(self.handle(self.inner.create_file(path)?, path)))
    }
    fn append_file(&self, path: &str) -> VfsResult<Box<dyn SeekAndWrite + Send>> {
        self.pre("append_file", path, None)?;
        Ok(Box::new(self.handle(self.inner.append_file(path)?, path)))
    }
    fn metadata(&self, path: &str) -> VfsResult<VfsMetadata> {
        self.pre("metadata", path, None)?;
        self.inner.metadata(path)
    }
    fn set_creation_time(&self, path: &str, time: SystemTime) -> VfsResult<()> {
        self.pre("set_creation_time", path, None)?;
        self.inner.set_creation_time(path, time)
    }
    fn set_modification_time(&self, path: &str, time: SystemTime) -> VfsResult<()> {
        self.pre("set_modification_time", path, None)?;
        self.inner.set_modification_time(path, time)
    }
    fn set_access_time(&self, path: &str, time: SystemTime) -> VfsResult<()> {
        self.pre("set_access_time", path, None)?;
        self.inner.set_access_time(path, time)
    }
    fn exists(&self, path: &str) -> VfsResult<bool> {
        self.pre("exists", path, None)?;
        self.inner.exists(path)
    }
    fn remove_file(&self, path: &str) -> VfsResult<()> {
        self.pre("remove_file", path, None)?;
        self.inner.remove_file(path)
    }
    fn remove_dir(&self, path: &str) -> VfsResult<()> {
        self.pre("remove_dir", path, None)?;
        self.inner.remove_dir(path)
    }
    fn copy_file(&self, src: &str, dest: &str) -> VfsResult<()> {
        self.pre("copy_file", src, Some(dest))?;
        self.inner.copy_file(src, dest)
    }
    fn move_file(&self, src: &str, dest: &str) -> VfsResult<()> {
        self.pre("move_file", src, Some(dest))?;
        self.inner.move_file(src, dest)
    }
    fn move_dir(&self, src: &str, dest: &str) -> VfsResult<()> {
        self.pre("move_dir", src, Some(dest))?;
        self.inner.move_dir(src, dest)
    }
}

/// A `FileSystem` that shares one instance between several `VfsPath` roots (the wrapped
/// root the system under test uses, and the raw root the harness observes through).
#[derive(Debug, Clone)]
pub struct SharedFs(pub Arc<dyn FileSystem>);

impl FileSystem for SharedFs {
    fn read_dir(&self, path: &str) -> VfsResult<Box<dyn Iterator<Item = String> + Send>> {
        self.0.read_dir(path)
    }
    fn create_dir(&self, path: &str) -> VfsResult<()> {
        self.0.create_dir(path)
    }
    fn open_file(&self, path: &str) -> VfsResult<Box<dyn SeekAndRead + Send>> {
        self.0.open_file(path)
    }
    fn create_file(&self, path: &str) -> VfsResult<Box<dyn SeekAndWrite + Send>> {
        self.0.create_file(path)
    }
    fn append_file(&self, path: &str) -> VfsResult<Box<dyn SeekAndWrite + Send>> {
        self.0.append_file(path)
    }
    fn metadata(&self, path: &str) -> VfsResult<VfsMetadata> {
        self.0.metadata(path)
    }
    fn set_creation_time(&self, path: &str, time: SystemTime) -> VfsResult<()> {
        self.0.set_creation_time(path, time)
    }
    fn set_modification_time(&self, path: &str, time: SystemTime) -> VfsResult<()> {
        self.0.set_modification_time(path, time)
    }
    fn set_access_time(&self, path: &str, time: SystemTime) -> VfsResult<()> {
        self.0.set_access_time(path, time)
    }
    fn exists(&self, path: &str) -> VfsResult<bool> {
        self.0.exists(path)
    }
    fn remove_file(&self, path: &str) -> VfsResult<()> {
        self.0.remove_file(path)
    }
    fn remove_dir(&self, path: &str) -> VfsResult<()> {
        self.0.remove_dir(path)
    }
    fn copy_file(&self, src: &str, dest: &str) -> VfsResult<()> {
        self.0.copy_file(src, dest)
    }
    fn move_file(&self, src: &str, dest: &str) -> VfsResult<()> {
        self.0.move_file(src, dest)
    }
    fn move_dir(&self, src: &str, dest: &str) -> VfsResult<()> {
        self.0.move_dir(src, dest)
    }
}

// ------------------------------------------------------------------------------------
// scratch directories

static SCRATCH_SEQ: AtomicUsize = AtomicUsize::new(0);

pub fn scratch_base() -> std::path::PathBuf {
    let shm = std::path::Path::new("/dev/shm");
    let base = if shm.is_dir() {
        shm.to_path_buf()
    } else {
        std::path::PathBuf::from("/verif/target/scratch")
    };
    base.join(format!("vfs-mc.{}", std::process::id()))
}

/// Removes scratch directories of dead processes and our own.
pub fn scratch_cleanup(all_of_ours: bool) {
    for base in ["/dev/shm", "/verif/target/scratch"] {
        if let Ok(rd) = std::fs::read_dir(base) {
            for e in rd.flatten() {
                let name = e.file_name().to_string_lossy().into_owned();
                if let Some(pid) = name.strip_prefix("vfs-mc.") {
                    let ours = pid == std::process::id().to_string();
                    let alive = std::path::Path::new(&format!("/proc/{}", pid)).exists();
                    if (ours && all_of_ours) || !alive {
                        let _ = std::fs::remove_dir_all(e.path());
                    }
                }
            }
        }
    }
}

#[derive(Debug)]
pub struct Scratch {
    pub path: std::path::PathBuf,
}

impl Scratch {
    pub fn new() -> Scratch {
        let n = SCRATCH_SEQ.fetch_add(1, Ordering::SeqCst);
        let path = scratch_base().join(format!("{}", n));
        std::fs::create_dir_all(&path).expect("HARNESS: cannot create scratch directory");
        Scratch { path }
    }
}

impl Default for Scratch {
    fn default() -> Self {
        Self::new()
    }
}

impl Drop for Scratch {
    fn drop(&mut self) {
        let _ = std::fs::remove_dir_all(&self.path);
    }
}

// ------------------------------------------------------------------------------------
// building live systems

#[derive(Debug)]
pub struct Base {
    pub label: String,
    pub node: String,
    /// unwrapped root of the base filesystem
    pub raw: VfsPath,
    /// a top-level path q lives at `prefix + q` in this base
    pub prefix: String,
    pub is_mem: bool,
    /// inside a non-first layer of some overlay: must never be modified through the stack
    pub lower: bool,
    /// inside the first layer of some overlay: may contain whiteout bookkeeping
    pub upper: bool,
    /// index of the layer of the top-level overlay this base belongs to (if the top is an overlay)
    pub top_layer: Option<usize>,
}

pub struct Held(pub Box<dyn vfs::SeekAndWrite + Send>);
impl std::fmt::Debug for Held {
    fn fmt(&self, f: &mut std::fmt::Formatter<'_>) -> std::fmt::Result {
        f.write_str("<write handle>")
    }
}

#[derive(Debug)]
pub struct Built {
    pub cfg: Cfg,
    pub root: VfsPath,
    pub bases: Vec<Base>,
    pub ctl: Arc<Ctl>,
    /// for a top-level altroot: the root of the filesystem it is rooted in (through the wrappers)
    pub alt_underlying: Option<VfsPath>,
    /// the first MemoryFS instance of the stack (for calls on the `FileSystem` trait itself)
    pub mem_fs: Option<SharedFs>,
    /// a write handle kept open across calls (session steps of the tree space) and the bytes
    /// that describe it for the state key (path, mode, buffer)
    pub held: std::sync::Mutex<Option<(Held, Vec<u8>)>>,
    _scratch: Vec<Scratch>,
}

impl Built {
    /// Everything the filesystem directly below a top-level altroot shows outside `p` (overlay
    /// bookkeeping masked): the part of the world no call through the altroot may change.
    pub fn outside_altroot(&self, p: &str) -> Vec<String> {
        match &self.alt_underlying {
            None => vec![],
            Some(s) => crate::snapshot::snapshot(s, &[])
                .without_markers()
                .dump()
                .into_iter()
                .filter(|line| !dump_line_is_below(line, p))
                .collect(),
        }
    }

    /// OS directories `<scratch>/outer` of the PhysicalFS bases (their roots are `outer/root`).
    pub fn phys_outer_dirs(&self) -> Vec<std::path::PathBuf> {
        self._scratch.iter().map(|s| s.path.join("outer")).collect()
    }
}

/// Names used for altroot prefixes and sentinels; disjoint from every universe.
pub const SENTINEL_DIR: &str = "/S";

/// Does a snapshot dump line (it starts with the quoted path) describe a path at or below `p`?
pub fn dump_line_is_below(line: &str, p: &str) -> bool {
    if p.is_empty() {
        return true;
    }
    let quoted = format!("{:?}", p);
    let q = &quoted[..quoted.len() - 1];
    line.starts_with(&format!("{}\"", q)) || line.starts_with(&format!("{}/", q))
}

struct Builder {
    mem_fs: Option<SharedFs>,
    alt_underlying: Option<VfsPath>,
    ctl: Arc<Ctl>,
    bases: Vec<Base>,
    scratch: Vec<Scratch>,
    sentinels: bool,
}

impl Builder {
    fn node(
        &mut self,
        cfg: &Cfg,
        id: &str,
        lower: bool,
        upper: bool,
        top_layer: Option<usize>,
    ) -> VfsPath {
        // (every wrapped node counts as "a call into a filesystem" for the fault injector)
        let underlying = true;
        let fs: Box<dyn FileSystem> = match cfg {
            Cfg::Mem => {
                let shared = SharedFs(Arc::new(MemoryFS::new()));
                if self.mem_fs.is_none() {
                    self.mem_fs = Some(shared.clone());
                }
                self.bases.push(Base {
                    label: format!("Mem@{}", id),
                    node: id.to_string(),
                    raw: VfsPath::new(shared.clone()),
                    prefix: String::new(),
                    is_mem: true,
                    lower,
                    upper,
                    top_layer,
                });
                Box::new(shared)
            }
            Cfg::Phys => {
                let sc = Scratch::new();
                // root = <scratch>/outer/root so that confinement can look at <scratch>/outer
                let root = sc.path.join("outer").join("root");
                std::fs::create_dir_all(&root).expect("HARNESS: scratch");
                self.bases.push(Base {
                    label: format!("Phys@{}", id),
                    node: id.to_string(),
                    raw: VfsPath::new(PhysicalFS::new(&root)),
                    prefix: String::new(),
                    is_mem: false,
                    lower,
                    upper,
                    top_layer,
                });
                self.scratch.push(sc);
                Box::new(PhysicalFS::new(&root))
            }
            Cfg::Alt(inner, p) => {
                let first = self.bases.len();
                let s = self.node(inner, &format!("{}.0", id), lower, upper, top_layer);
                let root = make_altroot_dir(&s, p, self.sentinels);
                if id == "0" {
                    self.alt_underlying = Some(s.clone());
                }
                for b in &mut self.bases[first..] {
                    b.prefix = format!("{}{}", b.prefix, p);
                }
                Box::new(AltrootFS::new(root))
            }
            Cfg::Sub(inner, p, exists) => {
                let first = self.bases.len();
                let s = self.node(inner, &format!("{}.0", id), lower, upper, top_layer);
                let dir = s.join(&p[1..]).expect("HARNESS: sub path");
                if *exists {
                    mkdirs(&dir);
                }
                for b in &mut self.bases[first..] {
                    b.prefix = format!("{}{}", b.prefix, p);
                }
                // the layer is the path itself: no further filesystem, no further wrapper
                return dir;
            }
            Cfg::OvShared(inner, dirs) => {
                let first = self.bases.len();
                let s = self.node(inner, &format!("{}.0", id), lower, upper, top_layer);
                assert!(self.bases.len() == first + 1, "HARNESS: OvShared needs a leaf filesystem");
                let proto = self.bases.pop().unwrap();
                let mut roots = vec![];
                for (i, d) in dirs.iter().enumerate() {
                    let dir = s.join(&d[1..]).expect("HARNESS: shared layer path");
                    mkdirs(&dir);
                    roots.push(dir);
                    self.bases.push(Base {
                        label: format!("{}{}", proto.label, d),
                        node: proto.node.clone(),
                        raw: proto.raw.clone(),
                        prefix: d.clone(),
                        is_mem: proto.is_mem,
                        lower: lower || i > 0,
                        upper: upper || i == 0,
                        top_layer: if id == "0" { Some(i) } else { top_layer },
                    });
                }
                Box::new(OverlayFS::new(&roots))
            }
            Cfg::Ov(layers) => {
                let mut roots = vec![];
                for (i, l) in layers.iter().enumerate() {
                    let tl = if id == "0" { Some(i) } else { top_layer };
                    roots.push(self.node(
                        l,
                        &format!("{}.{}", id, i),
                        lower || i > 0,
                        upper || i == 0,
                        tl,
                    ));
                }
                Box::new(OverlayFS::new(&roots))
            }
        };
        VfsPath::new(Wrap {
            inner: fs,
            node: id.to_string(),
            underlying,
            ctl: self.ctl.clone(),
        })
    }
}

/// Creates a directory chain level by level (the composite `create_dir_all` is under test itself).
pub fn mkdirs(dir: &VfsPath) {
    let full = dir.as_str().to_string();
    if full.is_empty() {
        return;
    }
    let root = dir.root();
    let comps: Vec<&str> = full[1..].split('/').collect();
    for k in 1..=comps.len() {
        let d = root.join(&comps[..k].join("/")).expect("HARNESS: directory chain");
        let _ = d.create_dir();
    }
}

/// Creates the altroot directory `p` in `s` plus (optionally) sentinel entries outside of it
/// that no call through the altroot may ever touch.  Returns the path of `p`.
pub fn make_altroot_dir(s: &VfsPath, p: &str, sentinels: bool) -> VfsPath {
    let root = if p.is_empty() {
        s.clone()
    } else {
        s.join(&p[1..]).expect("HARNESS: altroot prefix")
    };
    mkdirs(&root);
    // (with P = the underlying root nothing is outside the altroot, so there is nothing to plant)
    if sentinels && !p.is_empty() {
        let sdir = s.join(&SENTINEL_DIR[1..]).unwrap();
        let _ = sdir.create_dir();
        let _ = sdir.join("f").unwrap().write_file(b"sentinel");
        if !p.is_empty() {
            let _ = s
                .join(&format!("{}x", &p[1..]))
                .unwrap()
                .write_file(b"sibling");
            let mut anc = crate::ops::parent_of(p);
            while !anc.is_empty() {
                let _ = s
                    .join(&format!("{}/sf", &anc[1..]))
                    .unwrap()
                    .write_file(b"anc");
                anc = crate::ops::parent_of(&anc);
            }
        }
    }
    root
}

/// Initial contents: (base index, entries relative to the top-level namespace).
pub type Init = Vec<(usize, Vec<(String, Node)>)>;

/// Panics (of the library or of a harness assertion) while initial contents were written.
pub static SETUP_PANICS: std::sync::Mutex<Vec<String>> = std::sync::Mutex::new(Vec::new());

pub fn build(cfg: &Cfg, order: Order, init: &Init) -> Built {
    build_opts(cfg, order, init, true)
}

pub fn build_opts(cfg: &Cfg, order: Order, init: &Init, sentinels: bool) -> Built {
    let ctl = Ctl::new(order);
    let mut b = Builder {
        mem_fs: None,
        alt_underlying: None,
        ctl: ctl.clone(),
        bases: vec![],
        scratch: vec![],
        sentinels,
    };
    let root = b.node(cfg, "0", false, false, None);
    let built = Built {
        cfg: cfg.clone(),
        root,
        bases: b.bases,
        ctl,
        alt_underlying: b.alt_underlying,
        mem_fs: b.mem_fs,
        held: std::sync::Mutex::new(None),
        _scratch: b.scratch,
    };
    // initial contents are written with single-level calls only (the composite calls are under
    // test themselves); a library panic here is recorded and reported by `report::conclude`
    let r = crate::api::guard(|| {
        for (bi, entries) in init {
            let base = &built.bases[*bi];
            for (p, n) in entries {
                let full = format!("{}{}", base.prefix, p);
                let comps: Vec<&str> = full[1..].split('/').collect();
                let ndirs = if matches!(n, Node::Dir) {
                    comps.len()
                } else {
                    comps.len() - 1
                };
                for k in 1..=ndirs {
                    let d = base
                        .raw
                        .join(&comps[..k].join("/"))
                        .expect("HARNESS: init path");
                    let _ = d.create_dir();
                    assert!(
                        d.is_dir().unwrap_or(false),
                        "HARNESS: init dir {:?}",
                        d.as_str()
                    );
                }
                if let Node::File(bytes) = n {
                    let x = base.raw.join(&full[1..]).expect("HARNESS: init path");
                    PathApi::write_file(&x, bytes).expect("HARNESS: init file");
                }
            }
        }
    });
    if let Err(m) = r {
        SETUP_PANICS
            .lock()
            .unwrap()
            .push(format!("{}: {}", cfg.label(), m));
    }
    built
}
