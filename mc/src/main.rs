#![allow(
    dead_code,
    unreachable_patterns,
    clippy::too_many_arguments,
    clippy::type_complexity
)]
mod api;
mod asyncmc;
mod config;
mod explore;
mod handle;
mod model;
mod ops;
mod pair;
mod props;
mod report;
mod sched;
mod snapshot;
mod tree;

use std::time::Instant;

#[derive(Clone, Copy, Debug, PartialEq, Eq)]
pub enum Tier {
    Quick,
    Thorough,
}

pub struct Ctx {
    pub tier: Tier,
    pub seed: i64,
    pub t0: Instant,
    pub only_cfg: Option<String>,
}

impl Ctx {
    pub fn info(&self, property: &str, level: &str) -> report::RunInfo {
        report::RunInfo {
            property: property.to_string(),
            tier: match self.tier {
                Tier::Quick => "quick".into(),
                Tier::Thorough => "thorough".into(),
            },
            seed: self.seed,
            level: level.to_string(),
        }
    }
}

fn usage() -> ! {
    eprintln!("usage: vfs-mc check <C01..C20> [--tier quick|thorough] [--cfg LABEL]\n       vfs-mc replay <file.json>");
    std::process::exit(2);
}

fn main() {
    let args: Vec<String> = std::env::args().collect();
    if args.len() < 3 {
        usage();
    }
    api::install_panic_hook();
    config::scratch_cleanup(false);
    let mut tier = match std::env::var("VERIF_TIER").as_deref() {
        Ok("thorough") => Tier::Thorough,
        _ => Tier::Quick,
    };
    let seed = std::env::var("VERIF_SEED")
        .ok()
        .and_then(|s| s.parse().ok())
        .unwrap_or(0);
    let mut only_cfg = None;
    let mut i = 3;
    while i < args.len() {
        match args[i].as_str() {
            "--tier" => {
                tier = match args.get(i + 1).map(|s| s.as_str()) {
                    Some("quick") => Tier::Quick,
                    Some("thorough") => Tier::Thorough,
                    _ => usage(),
                };
                i += 2;
            }
            "--cfg" => {
                only_cfg = args.get(i + 1).cloned();
                i += 2;
            }
            _ => usage(),
        }
    }
    let ctx = Ctx {
        tier,
        seed,
        t0: Instant::now(),
        only_cfg,
    };
    let run = std::panic::catch_unwind(std::panic::AssertUnwindSafe(|| match args[1].as_str() {
        "check" => props::run_check(&ctx, &args[2]),
        "replay" => props::run_replay(&ctx, &args[2]),
        _ => usage(),
    }));
    let code = match run {
        Ok(c) => c,
        Err(_) => {
            // the run itself unwound: a library panic that escaped every guard is still a finding
            // (no operation may panic); a panic in harness code is a machinery failure
            let m = api::LAST_UNGUARDED_PANIC
                .lock()
                .unwrap()
                .clone()
                .unwrap_or_default();
            if m.contains("/repo/src/") && args[1] == "check" {
                let _ = std::fs::create_dir_all("/verif/replays");
                let path = format!("/verif/replays/{}-library-panic.json", args[2]);
                let _ = std::fs::write(&path, serde_json::json!({"engine": "main", "summary": "the library panicked in a call the harness makes outside its guards (setup or observation)", "panic": m}).to_string());
                println!("VIOLATION property={} replay={}", args[2], path);
                println!(
                    "  signature: library-panic-outside-guard|{}",
                    m.split(" @ ").last().unwrap_or("")
                );
                1
            } else {
                eprintln!("MACHINERY: the harness panicked: {}", m);
                2
            }
        }
    };
    config::scratch_cleanup(true);
    std::process::exit(code);
}
