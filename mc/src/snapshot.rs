//! Observable snapshots of a filesystem through the public path API, canonical keys.

use crate::api::*;
use crate::model::{Model, Node};
use crate::ops::*;
use std::collections::{BTreeMap, BTreeSet};

/// Everything the six observers say about one path.
#[derive(Clone, Debug, PartialEq, Eq)]
pub struct PObs {
    pub exists: R<bool>,
    pub meta: R<(FType, u64)>,
    pub is_file: R<bool>,
    pub is_dir: R<bool>,
    /// child paths as returned (order of the listing)
    pub list: R<Vec<String>>,
    pub content: R<Vec<u8>>,
    /// which of created / modified / accessed equal the fixed instant `Op::SetTime` writes
    /// (not part of the canonical key; compared separately where the alphabet has the setters)
    pub tflags: Option<[bool; 3]>,
}

pub fn set_time_instant() -> std::time::SystemTime {
    std::time::SystemTime::UNIX_EPOCH + std::time::Duration::from_secs(1_234_567)
}

#[derive(Clone, Debug, PartialEq, Eq)]
pub struct Snap {
    pub entries: BTreeMap<String, PObs>,
    /// walk_dir(root): items in iteration order
    pub walk: R<Vec<R<String>>>,
    /// Some(message) if an observer panicked while the snapshot was taken
    pub panic: Option<String>,
}

fn observe_path<P: PathApi>(root: &P, p: &str) -> PObs {
    match at(root, p) {
        Err(e) => PObs {
            exists: Err(e.clone()),
            meta: Err(e.clone()),
            is_file: Err(e.clone()),
            is_dir: Err(e.clone()),
            list: Err(e.clone()),
            content: Err(e),
            tflags: None,
        },
        Ok(x) => {
            let md = x.metadata();
            let t = set_time_instant();
            PObs {
                exists: x.exists(),
                tflags: md.as_ref().ok().map(|m| {
                    [
                        m.created == Some(t),
                        m.modified == Some(t),
                        m.accessed == Some(t),
                    ]
                }),
                meta: md.map(|m| (m.ftype, m.len)),
                is_file: x.is_file(),
                is_dir: x.is_dir(),
                list: x
                    .read_dir()
                    .map(|v| v.iter().map(|c| c.as_string()).collect()),
                content: x.read_all(),
            }
        }
    }
}

/// Snapshot over `probes` plus everything that listings and the walk reveal (closure).
pub fn snapshot<P: PathApi>(root: &P, probes: &[String]) -> Snap {
    let r = guard(|| {
        let mut entries: BTreeMap<String, PObs> = BTreeMap::new();
        let mut todo: Vec<String> = probes.to_vec();
        todo.push(String::new());
        let walk = root.walk().map(|items| {
            items
                .into_iter()
                .map(|i| i.map(|c| c.as_string()))
                .collect::<Vec<_>>()
        });
        if let Ok(items) = &walk {
            for i in items.iter().flatten() {
                todo.push(i.clone());
            }
        }
        let mut budget = 5000;
        while let Some(p) = todo.pop() {
            if entries.contains_key(&p) {
                continue;
            }
            budget -= 1;
            if budget == 0 {
                break;
            }
            let o = observe_path(root, &p);
            if let Ok(l) = &o.list {
                for c in l {
                    // only follow well-formed child paths; malformed ones are reported by C05
                    if c.starts_with('/') && !entries.contains_key(c) {
                        todo.push(c.clone());
                    }
                }
            }
            entries.insert(p, o);
        }
        Snap {
            entries,
            walk,
            panic: None,
        }
    });
    match r {
        Ok(s) => s,
        Err(m) => Snap {
            entries: BTreeMap::new(),
            walk: Ok(vec![]),
            panic: Some(m),
        },
    }
}

/// Is `p` inside the overlay's bookkeeping namespace (`/.whiteout` at the root)?
pub fn in_marker_dir(p: &str) -> bool {
    p == "/.whiteout" || p.starts_with("/.whiteout/")
}

fn kind_tag(e: &EInfo) -> u8 {
    100 + e.kind as u8
}

impl Snap {
    /// Canonical bytes: outcomes with error kinds, listings as sorted sets, no error texts.
    pub fn key_bytes(&self, out: &mut Vec<u8>) {
        for (p, o) in &self.entries {
            // absent paths contribute nothing but their error classes; skip fully-absent ones to
            // keep keys independent of which absent probes were asked for
            if matches!(o.exists, Ok(false))
                && o.meta.is_err()
                && o.list.is_err()
                && o.content.is_err()
            {
                continue;
            }
            out.extend_from_slice(p.as_bytes());
            out.push(0);
            match &o.exists {
                Ok(b) => out.push(*b as u8),
                Err(e) => out.push(kind_tag(e)),
            }
            match &o.meta {
                Ok((t, l)) => {
                    out.push(*t as u8);
                    out.extend_from_slice(&l.to_le_bytes());
                }
                Err(e) => out.push(kind_tag(e)),
            }
            match &o.list {
                Ok(l) => {
                    let mut l = l.clone();
                    l.sort();
                    out.push(1);
                    for c in l {
                        out.extend_from_slice(c.as_bytes());
                        out.push(1);
                    }
                }
                Err(_) => out.push(2),
            }
            match &o.content {
                Ok(b) => {
                    out.push(1);
                    out.extend_from_slice(&(b.len() as u64).to_le_bytes());
                    out.extend_from_slice(b);
                }
                Err(_) => out.push(2),
            }
            out.push(0xff);
        }
        if self.panic.is_some() {
            // (the message is not part of the key: which entry trips an observer first can depend on
            // the hash order of the filesystem's own map, which differs between two replays)
            out.extend_from_slice(b"PANIC");
        }
    }

    /// The same snapshot without the overlay's bookkeeping namespace `/.whiteout/**`.  C01 and
    /// C09 leave the reserved names unspecified; whether they are visible is C10's question.
    pub fn without_markers(&self) -> Snap {
        let mut s = self.clone();
        s.entries.retain(|p, _| !in_marker_dir(p));
        if let Some(root) = s.entries.get_mut("") {
            if let Ok(l) = &mut root.list {
                l.retain(|c| !in_marker_dir(c));
            }
        }
        if let Ok(items) = &mut s.walk {
            items.retain(|i| match i {
                Ok(p) => !in_marker_dir(p),
                Err(_) => true,
            });
        }
        s
    }

    /// Paths the snapshot says exist (by `exists`, or by having metadata / being listed).
    pub fn existing(&self) -> BTreeSet<String> {
        self.entries
            .iter()
            .filter(|(_, o)| matches!(o.exists, Ok(true)))
            .map(|(p, _)| p.clone())
            .collect()
    }

    /// Abstraction to a model tree (exists + metadata type + content).
    pub fn to_model(&self) -> Model {
        Model::from_entries(self.entries.iter().filter_map(|(p, o)| {
            if !matches!(o.exists, Ok(true)) {
                return None;
            }
            match &o.meta {
                Ok((FType::Dir, _)) => Some((p.clone(), Node::Dir)),
                Ok((FType::File, _)) => {
                    Some((p.clone(), Node::File(o.content.clone().unwrap_or_default())))
                }
                Err(_) => None,
            }
        }))
    }

    /// Same tree, same bytes, same listings (as sets), same walk (as a set)?  Error texts and
    /// listing order are ignored.
    pub fn same_tree(&self, other: &Snap) -> bool {
        let mut a = vec![];
        let mut b = vec![];
        self.key_bytes(&mut a);
        other.key_bytes(&mut b);
        a == b && self.walk_set() == other.walk_set()
    }

    /// (path, flags) for every existing entry: which timestamps carry the instant of `Op::SetTime`.
    pub fn time_flags(&self) -> Vec<(String, [bool; 3])> {
        self.entries
            .iter()
            .filter_map(|(p, o)| o.tflags.map(|f| (p.clone(), f)))
            .collect()
    }

    pub fn walk_set(&self) -> Option<Vec<String>> {
        match &self.walk {
            Ok(items) => {
                let mut v: Vec<String> = items
                    .iter()
                    .map(|i| match i {
                        Ok(p) => p.clone(),
                        Err(_) => "<ERR>".to_string(),
                    })
                    .collect();
                v.sort();
                Some(v)
            }
            Err(_) => None,
        }
    }

    /// Human readable one-line-per-entry dump for replay files.
    pub fn dump(&self) -> Vec<String> {
        let mut v = vec![];
        for (p, o) in &self.entries {
            if matches!(o.exists, Ok(false)) && o.meta.is_err() {
                continue;
            }
            let show = |r: &R<String>| match r {
                Ok(s) => s.clone(),
                Err(e) => format!("Err({})", e.kind.name()),
            };
            v.push(format!(
                "{:?}: exists={} meta={} list={} content={}",
                p,
                show(&o.exists.clone().map(|b| b.to_string())),
                show(&o.meta.clone().map(|(t, l)| format!("{:?}/{}", t, l))),
                show(&o.list.clone().map(|l| {
                    let mut l = l;
                    l.sort();
                    format!("{:?}", l)
                })),
                show(
                    &o.content
                        .clone()
                        .map(|b| format!("{:?}", String::from_utf8_lossy(&b)))
                ),
            ));
        }
        if let Some(p) = &self.panic {
            v.push(format!("SNAPSHOT PANIC: {}", p));
        }
        v
    }
}

/// Compares an observed snapshot with the model over `paths`; returns human readable
/// differences (empty = equal).
pub fn diff_model(snap: &Snap, model: &Model, paths: &[String]) -> Vec<String> {
    let mut d = vec![];
    if let Some(p) = &snap.panic {
        d.push(format!("observer panicked: {}", p));
        return d;
    }
    let mut all: BTreeSet<String> = paths.iter().cloned().collect();
    all.insert(String::new());
    for p in snap.entries.keys() {
        all.insert(p.clone());
    }
    for p in model.t.keys() {
        all.insert(p.clone());
    }
    for p in &all {
        let o = match snap.entries.get(p) {
            Some(o) => o,
            None => {
                if model.exists(p) {
                    d.push(format!(
                        "{:?}: in the model ({:?}) but never observed",
                        p,
                        model.get(p)
                    ));
                }
                continue;
            }
        };
        let want_exists = model.exists(p);
        if o.exists != Ok(want_exists) {
            d.push(format!(
                "{:?}: exists() = {:?}, model says {}",
                p,
                o.exists.as_ref().map_err(|e| e.kind),
                want_exists
            ));
        }
        match (model.obs_meta(p), &o.meta) {
            (Some(w), Ok(g)) if w == *g => {}
            (None, Err(_)) => {}
            (w, g) => d.push(format!(
                "{:?}: metadata() = {:?}, model says {:?}",
                p,
                g.as_ref().map_err(|e| e.kind),
                w
            )),
        }
        if o.is_file != Ok(model.is_file(p)) {
            d.push(format!(
                "{:?}: is_file() = {:?}, model says {}",
                p,
                o.is_file.as_ref().map_err(|e| e.kind),
                model.is_file(p)
            ));
        }
        if o.is_dir != Ok(model.is_dir(p)) {
            d.push(format!(
                "{:?}: is_dir() = {:?}, model says {}",
                p,
                o.is_dir.as_ref().map_err(|e| e.kind),
                model.is_dir(p)
            ));
        }
        match (model.is_dir(p), &o.list) {
            (true, Ok(l)) => {
                let mut l = l.clone();
                l.sort();
                let w = model.children(p);
                if l != w {
                    d.push(format!("{:?}: read_dir() = {:?}, model says {:?}", p, l, w));
                }
            }
            (false, Err(_)) => {}
            (w, g) => d.push(format!(
                "{:?}: read_dir() is {}, model says {}",
                p,
                if g.is_ok() { "Ok" } else { "Err" },
                if w { "a directory" } else { "not a directory" }
            )),
        }
        match (model.get(p), &o.content) {
            (Some(Node::File(w)), Ok(g)) => {
                if w != g {
                    d.push(format!(
                        "{:?}: content = {:?}, model says {:?}",
                        p,
                        String::from_utf8_lossy(g),
                        String::from_utf8_lossy(w)
                    ));
                }
            }
            (Some(Node::File(_)), Err(e)) => d.push(format!(
                "{:?}: open+read failed ({}), model says file",
                p,
                e.kind.name()
            )),
            (_, Ok(_)) => d.push(format!(
                "{:?}: open+read succeeded, model says not a file",
                p
            )),
            (_, Err(_)) => {}
        }
    }
    match &snap.walk_set() {
        Some(w) => {
            let want = model.obs_walk("");
            if *w != want {
                d.push(format!("walk_dir(root) = {:?}, model says {:?}", w, want));
            }
        }
        None => d.push("walk_dir(root) failed".to_string()),
    }
    d
}
