//! Operation alphabet, application of one operation through `PathApi`, universes.

use crate::api::*;
use serde_json::{json, Value};

#[derive(Clone, Debug, PartialEq, Eq, Hash, PartialOrd, Ord)]
pub enum Op {
    CreateDir(String),
    CreateFile(String, Vec<u8>),
    Append(String, Vec<u8>),
    RemoveFile(String),
    RemoveDir(String),
    CreateDirAll(String),
    RemoveDirAll(String),
    CopyFile(String, String),
    MoveFile(String, String),
    CopyDir(String, String),
    MoveDir(String, String),
    // observers as explicit calls (C08, C20)
    Exists(String),
    Metadata(String),
    IsFile(String),
    IsDir(String),
    ReadDir(String),
    ReadAll(String),
    ReadToString(String),
    Walk(String),
    /// set_creation_time / set_modification_time / set_access_time (field 0 / 1 / 2) to a fixed value
    SetTime(String, u8),
    /// session steps (applied by the tree space, which keeps the handle with the live system):
    /// open a write handle with create_file (false) / append_file (true) and keep it open
    OpenWrite(String, bool),
    /// write to the kept handle and flush it, keeping it open
    FlushWrite,
    /// write to the kept handle and drop it
    CloseWrite,
}

/// Observable value returned by a successful call (everything a caller can see).
#[derive(Clone, Debug, PartialEq, Eq)]
pub enum Val {
    Unit,
    Count(u64),
    Bool(bool),
    Meta(FType, u64),
    /// sorted child paths
    List(Vec<String>),
    Bytes(Vec<u8>),
    /// walk: items in order; Err items rendered as "ERR"
    Walk(Vec<Result<String, EInfo>>),
}

#[derive(Clone, Debug, PartialEq, Eq)]
pub enum Outcome {
    Ok(Val),
    Err(EInfo),
    Panic(String),
}

impl Outcome {
    pub fn is_ok(&self) -> bool {
        matches!(self, Outcome::Ok(_))
    }
    pub fn is_err(&self) -> bool {
        matches!(self, Outcome::Err(_))
    }
    pub fn class(&self) -> String {
        match self {
            Outcome::Ok(_) => "Ok".into(),
            Outcome::Err(e) => format!("Err({})", e.kind.name()),
            Outcome::Panic(_) => "Panic".into(),
        }
    }
    pub fn short(&self) -> String {
        match self {
            Outcome::Ok(v) => format!("Ok({:?})", v),
            Outcome::Err(e) => format!("Err({}, path={:?}, {})", e.kind.name(), e.path, e.display),
            Outcome::Panic(m) => format!("Panic({})", m),
        }
    }
}

impl Op {
    pub fn name(&self) -> &'static str {
        match self {
            Op::CreateDir(_) => "create_dir",
            Op::CreateFile(..) => "create_file",
            Op::Append(..) => "append_file",
            Op::RemoveFile(_) => "remove_file",
            Op::RemoveDir(_) => "remove_dir",
            Op::CreateDirAll(_) => "create_dir_all",
            Op::RemoveDirAll(_) => "remove_dir_all",
            Op::CopyFile(..) => "copy_file",
            Op::MoveFile(..) => "move_file",
            Op::CopyDir(..) => "copy_dir",
            Op::MoveDir(..) => "move_dir",
            Op::Exists(_) => "exists",
            Op::Metadata(_) => "metadata",
            Op::IsFile(_) => "is_file",
            Op::IsDir(_) => "is_dir",
            Op::ReadDir(_) => "read_dir",
            Op::ReadAll(_) => "open_file+read",
            Op::ReadToString(_) => "read_to_string",
            Op::Walk(_) => "walk_dir",
            Op::SetTime(_, 0) => "set_creation_time",
            Op::SetTime(_, 1) => "set_modification_time",
            Op::SetTime(..) => "set_access_time",
            Op::OpenWrite(_, false) => "open:create_file",
            Op::OpenWrite(_, true) => "open:append_file",
            Op::FlushWrite => "handle:write+flush",
            Op::CloseWrite => "handle:write+drop",
        }
    }
    pub fn is_session(&self) -> bool {
        matches!(self, Op::OpenWrite(..) | Op::FlushWrite | Op::CloseWrite)
    }
    pub fn is_setter(&self) -> bool {
        matches!(self, Op::SetTime(..))
    }
    pub fn is_observer(&self) -> bool {
        matches!(
            self,
            Op::Exists(_)
                | Op::Metadata(_)
                | Op::IsFile(_)
                | Op::IsDir(_)
                | Op::ReadDir(_)
                | Op::ReadAll(_)
                | Op::ReadToString(_)
                | Op::Walk(_)
        )
    }
    pub fn is_primitive(&self) -> bool {
        matches!(
            self,
            Op::CreateDir(_)
                | Op::CreateFile(..)
                | Op::Append(..)
                | Op::RemoveFile(_)
                | Op::RemoveDir(_)
        )
    }
    pub fn path(&self) -> &str {
        match self {
            Op::CreateDir(p)
            | Op::CreateFile(p, _)
            | Op::Append(p, _)
            | Op::RemoveFile(p)
            | Op::RemoveDir(p)
            | Op::CreateDirAll(p)
            | Op::RemoveDirAll(p)
            | Op::CopyFile(p, _)
            | Op::MoveFile(p, _)
            | Op::CopyDir(p, _)
            | Op::MoveDir(p, _)
            | Op::Exists(p)
            | Op::Metadata(p)
            | Op::IsFile(p)
            | Op::IsDir(p)
            | Op::ReadDir(p)
            | Op::ReadAll(p)
            | Op::ReadToString(p)
            | Op::SetTime(p, _)
            | Op::OpenWrite(p, _)
            | Op::Walk(p) => p,
            Op::FlushWrite | Op::CloseWrite => "",
        }
    }
    pub fn dest(&self) -> Option<&str> {
        match self {
            Op::CopyFile(_, q) | Op::MoveFile(_, q) | Op::CopyDir(_, q) | Op::MoveDir(_, q) => {
                Some(q)
            }
            _ => None,
        }
    }
    /// Same op with every path mapped through `f` (altroot twin).
    pub fn map_paths(&self, f: &dyn Fn(&str) -> String) -> Op {
        match self {
            Op::CreateDir(p) => Op::CreateDir(f(p)),
            Op::CreateFile(p, w) => Op::CreateFile(f(p), w.clone()),
            Op::Append(p, w) => Op::Append(f(p), w.clone()),
            Op::RemoveFile(p) => Op::RemoveFile(f(p)),
            Op::RemoveDir(p) => Op::RemoveDir(f(p)),
            Op::CreateDirAll(p) => Op::CreateDirAll(f(p)),
            Op::RemoveDirAll(p) => Op::RemoveDirAll(f(p)),
            Op::CopyFile(p, q) => Op::CopyFile(f(p), f(q)),
            Op::MoveFile(p, q) => Op::MoveFile(f(p), f(q)),
            Op::CopyDir(p, q) => Op::CopyDir(f(p), f(q)),
            Op::MoveDir(p, q) => Op::MoveDir(f(p), f(q)),
            Op::Exists(p) => Op::Exists(f(p)),
            Op::Metadata(p) => Op::Metadata(f(p)),
            Op::IsFile(p) => Op::IsFile(f(p)),
            Op::IsDir(p) => Op::IsDir(f(p)),
            Op::ReadDir(p) => Op::ReadDir(f(p)),
            Op::ReadAll(p) => Op::ReadAll(f(p)),
            Op::ReadToString(p) => Op::ReadToString(f(p)),
            Op::Walk(p) => Op::Walk(f(p)),
            Op::SetTime(p, k) => Op::SetTime(f(p), *k),
            Op::OpenWrite(p, a) => Op::OpenWrite(f(p), *a),
            Op::FlushWrite => Op::FlushWrite,
            Op::CloseWrite => Op::CloseWrite,
        }
    }
    pub fn show(&self) -> String {
        let b = |w: &Vec<u8>| String::from_utf8_lossy(w).into_owned();
        match self {
            Op::CreateFile(p, w) => format!("create_file({:?})+write({:?})", p, b(w)),
            Op::Append(p, w) => format!("append_file({:?})+write({:?})", p, b(w)),
            _ => match self.dest() {
                Some(q) => format!("{}({:?},{:?})", self.name(), self.path(), q),
                None => format!("{}({:?})", self.name(), self.path()),
            },
        }
    }
    pub fn to_json(&self) -> Value {
        let mut o = json!({"op": self.name(), "path": self.path()});
        if let Some(q) = self.dest() {
            o["dest"] = json!(q);
        }
        match self {
            Op::CreateFile(_, w) | Op::Append(_, w) => {
                o["bytes"] = json!(w);
            }
            _ => {}
        }
        o
    }
    pub fn from_json(v: &Value) -> Option<Op> {
        let p = v["path"].as_str()?.to_string();
        let q = v["dest"].as_str().map(|s| s.to_string());
        let w: Vec<u8> = v["bytes"]
            .as_array()
            .map(|a| a.iter().map(|x| x.as_u64().unwrap_or(0) as u8).collect())
            .unwrap_or_default();
        Some(match v["op"].as_str()? {
            "create_dir" => Op::CreateDir(p),
            "create_file" => Op::CreateFile(p, w),
            "append_file" => Op::Append(p, w),
            "remove_file" => Op::RemoveFile(p),
            "remove_dir" => Op::RemoveDir(p),
            "create_dir_all" => Op::CreateDirAll(p),
            "remove_dir_all" => Op::RemoveDirAll(p),
            "copy_file" => Op::CopyFile(p, q?),
            "move_file" => Op::MoveFile(p, q?),
            "copy_dir" => Op::CopyDir(p, q?),
            "move_dir" => Op::MoveDir(p, q?),
            "exists" => Op::Exists(p),
            "metadata" => Op::Metadata(p),
            "is_file" => Op::IsFile(p),
            "is_dir" => Op::IsDir(p),
            "read_dir" => Op::ReadDir(p),
            "open_file+read" => Op::ReadAll(p),
            "read_to_string" => Op::ReadToString(p),
            "walk_dir" => Op::Walk(p),
            "set_creation_time" => Op::SetTime(p, 0),
            "set_modification_time" => Op::SetTime(p, 1),
            "set_access_time" => Op::SetTime(p, 2),
            "open:create_file" => Op::OpenWrite(p, false),
            "open:append_file" => Op::OpenWrite(p, true),
            "handle:write+flush" => Op::FlushWrite,
            "handle:write+drop" => Op::CloseWrite,
            _ => return None,
        })
    }
}

/// `root.join(p)` for a canonical path `p` ("" or "/a/b").
pub fn at<P: PathApi>(root: &P, p: &str) -> R<P> {
    if p.is_empty() {
        Ok(root.clone())
    } else {
        root.join(&p[1..])
    }
}

fn apply_inner<P: PathApi>(root: &P, op: &Op) -> R<Val> {
    let p = at(root, op.path())?;
    let q = match op.dest() {
        Some(q) => Some(at(root, q)?),
        None => None,
    };
    Ok(match op {
        Op::CreateDir(_) => p.create_dir().map(|_| Val::Unit)?,
        Op::CreateFile(_, w) => p.write_file(w).map(|_| Val::Unit)?,
        Op::Append(_, w) => p.append(w).map(|_| Val::Unit)?,
        Op::RemoveFile(_) => p.remove_file().map(|_| Val::Unit)?,
        Op::RemoveDir(_) => p.remove_dir().map(|_| Val::Unit)?,
        Op::CreateDirAll(_) => p.create_dir_all().map(|_| Val::Unit)?,
        Op::RemoveDirAll(_) => p.remove_dir_all().map(|_| Val::Unit)?,
        Op::CopyFile(..) => p.copy_file(q.as_ref().unwrap()).map(|_| Val::Unit)?,
        Op::MoveFile(..) => p.move_file(q.as_ref().unwrap()).map(|_| Val::Unit)?,
        Op::CopyDir(..) => p.copy_dir(q.as_ref().unwrap()).map(Val::Count)?,
        Op::MoveDir(..) => p.move_dir(q.as_ref().unwrap()).map(|_| Val::Unit)?,
        Op::Exists(_) => Val::Bool(p.exists()?),
        Op::Metadata(_) => {
            let m = p.metadata()?;
            Val::Meta(m.ftype, m.len)
        }
        Op::IsFile(_) => Val::Bool(p.is_file()?),
        Op::IsDir(_) => Val::Bool(p.is_dir()?),
        Op::ReadDir(_) => {
            let mut l: Vec<String> = p.read_dir()?.iter().map(|c| c.as_string()).collect();
            l.sort();
            Val::List(l)
        }
        Op::ReadAll(_) => Val::Bytes(p.read_all()?),
        Op::ReadToString(_) => Val::Bytes(p.read_to_string()?.into_bytes()),
        Op::Walk(_) => Val::Walk(
            p.walk()?
                .into_iter()
                .map(|i| i.map(|c| c.as_string()))
                .collect(),
        ),
        Op::SetTime(_, k) => {
            let t = crate::snapshot::set_time_instant();
            let f = match k {
                0 => TimeField::Created,
                1 => TimeField::Modified,
                _ => TimeField::Accessed,
            };
            p.set_time(f, t).map(|_| Val::Unit)?
        }
        Op::OpenWrite(..) | Op::FlushWrite | Op::CloseWrite => {
            panic!("session steps are applied by the tree space")
        }
    })
}

/// Applies one operation to a live system; never unwinds.
pub fn apply<P: PathApi>(root: &P, op: &Op) -> Outcome {
    match guard(|| apply_inner(root, op)) {
        Ok(Ok(v)) => Outcome::Ok(v),
        Ok(Err(e)) => Outcome::Err(e),
        Err(m) => Outcome::Panic(m),
    }
}

// ------------------------------------------------------------------------------------
// universes

#[derive(Clone, Debug)]
pub struct Universe {
    pub name: String,
    /// canonical non-root paths, prefix closed, parents before children
    pub paths: Vec<String>,
}

impl Universe {
    pub fn new(name: &str, paths: &[&str]) -> Universe {
        let mut v: Vec<String> = paths.iter().map(|s| s.to_string()).collect();
        v.sort_by_key(|p| (p.matches('/').count(), p.clone()));
        // prefix closure check
        for p in &v {
            let par = parent_of(p);
            assert!(
                par.is_empty() || v.contains(&par),
                "universe not prefix closed: {}",
                p
            );
        }
        Universe {
            name: name.to_string(),
            paths: v,
        }
    }
    /// names^depth
    pub fn grid(names: &[&str], depth: usize) -> Universe {
        let mut all: Vec<String> = vec![];
        let mut level: Vec<String> = vec!["".into()];
        for _ in 0..depth {
            let mut next = vec![];
            for base in &level {
                for n in names {
                    next.push(format!("{}/{}", base, n));
                }
            }
            all.extend(next.iter().cloned());
            level = next;
        }
        let refs: Vec<&str> = all.iter().map(|s| s.as_str()).collect();
        Universe::new(&format!("U({},{})", names.len(), depth), &refs)
    }
    pub fn with_root(&self) -> Vec<String> {
        let mut v = vec!["".to_string()];
        v.extend(self.paths.iter().cloned());
        v
    }
}

pub fn parent_of(p: &str) -> String {
    match p.rfind('/') {
        Some(i) => p[..i].to_string(),
        None => "".to_string(),
    }
}

pub fn name_of(p: &str) -> String {
    match p.rfind('/') {
        Some(i) => p[i + 1..].to_string(),
        None => p.to_string(),
    }
}

pub fn is_within(p: &str, anc: &str) -> bool {
    p == anc || (p.starts_with(anc) && p.as_bytes().get(anc.len()) == Some(&b'/')) || anc.is_empty()
}

#[derive(Clone, Debug)]
pub struct Alphabet {
    pub universe: Universe,
    /// contents written by create_file
    pub contents: Vec<Vec<u8>>,
    /// bytes appended by append_file
    pub append: Vec<u8>,
    /// appends are only generated while the target file is shorter than this
    pub append_cap: usize,
    pub composites: bool,
    pub observers: bool,
    pub setters: bool,
    /// write handles kept open across other calls (OpenWrite / FlushWrite / CloseWrite)
    pub sessions: bool,
    /// a refused call that leaves the observable state unchanged still starts a state of its own
    /// (at most one per history): whatever the refused call left behind inside the filesystem is
    /// then met by every later call
    pub residue: bool,
}

impl Alphabet {
    /// Every call of the alphabet on every path (and pair of paths), root included.
    /// State dependent restrictions (append cap, domains) are applied by the caller.
    pub fn all_ops(&self) -> Vec<Op> {
        let ps = self.universe.with_root();
        let mut v = vec![];
        for p in &ps {
            // a name with the overlay's reserved marker suffix is never made a directory (no
            // universe but C05's `U_wo2` has such a name; see there)
            if !p.ends_with("_wo") {
                v.push(Op::CreateDir(p.clone()));
            }
            for w in &self.contents {
                v.push(Op::CreateFile(p.clone(), w.clone()));
            }
            v.push(Op::Append(p.clone(), self.append.clone()));
            v.push(Op::RemoveFile(p.clone()));
            v.push(Op::RemoveDir(p.clone()));
        }
        if self.composites {
            for p in &ps {
                v.push(Op::CreateDirAll(p.clone()));
                v.push(Op::RemoveDirAll(p.clone()));
            }
            for p in &ps {
                for q in &ps {
                    v.push(Op::CopyFile(p.clone(), q.clone()));
                    v.push(Op::MoveFile(p.clone(), q.clone()));
                    v.push(Op::CopyDir(p.clone(), q.clone()));
                    v.push(Op::MoveDir(p.clone(), q.clone()));
                }
            }
        }
        if self.setters {
            for p in &ps {
                for k in 0..3 {
                    v.push(Op::SetTime(p.clone(), k));
                }
            }
        }
        if self.sessions {
            for p in &self.universe.paths {
                v.push(Op::OpenWrite(p.clone(), false));
                v.push(Op::OpenWrite(p.clone(), true));
            }
            v.push(Op::FlushWrite);
            v.push(Op::CloseWrite);
        }
        if self.observers {
            for p in &ps {
                v.push(Op::Exists(p.clone()));
                v.push(Op::Metadata(p.clone()));
                v.push(Op::IsFile(p.clone()));
                v.push(Op::IsDir(p.clone()));
                v.push(Op::ReadDir(p.clone()));
                v.push(Op::ReadAll(p.clone()));
                v.push(Op::ReadToString(p.clone()));
                v.push(Op::Walk(p.clone()));
            }
        }
        v
    }
}
