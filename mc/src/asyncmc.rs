//! Async port: a hand-written single-threaded executor, a blocking `PathApi` view of
//! `AsyncVfsPath`, async stacks (configuration -> live system) and the `AWrap` environment
//! wrapper that owns listing order and injects `Pending` at the await points it controls.

use crate::api::*;
use crate::config::{Cfg, Order, Scratch};
use crate::model::Node;
use async_std::io::{ReadExt, WriteExt};
use async_trait::async_trait;
use futures::stream::{Stream, StreamExt};
use std::future::Future;
use std::pin::Pin;
use std::sync::atomic::{AtomicUsize, Ordering};
use std::sync::{Arc, Mutex};
use std::task::{Context, Poll, Wake, Waker};
use std::time::SystemTime;
use vfs::async_vfs::{
    AsyncAltrootFS, AsyncFileSystem, AsyncMemoryFS, AsyncOverlayFS, AsyncPhysicalFS, AsyncVfsPath,
};
use vfs::{VfsMetadata, VfsResult};

// ------------------------------------------------------------------------------------
// executor

struct ThreadWaker(std::thread::Thread);

impl Wake for ThreadWaker {
    fn wake(self: Arc<Self>) {
        self.0.unpark();
    }
}

thread_local! {
    /// polls made by `block_on` on this thread (for poll-schedule statistics and horizons)
    pub static POLLS: std::cell::Cell<u64> = const { std::cell::Cell::new(0) };
}

pub const POLL_HORIZON: u64 = 200_000;

/// Polls `f` to completion on the current thread.  Panics with "poll horizon" if the future
/// does not complete within POLL_HORIZON polls (a livelock under an injected Pending).
pub fn block_on<F: Future>(f: F) -> F::Output {
    let mut f = Box::pin(f);
    let waker = Waker::from(Arc::new(ThreadWaker(std::thread::current())));
    let mut cx = Context::from_waker(&waker);
    let mut n = 0u64;
    loop {
        POLLS.with(|p| p.set(p.get() + 1));
        match f.as_mut().poll(&mut cx) {
            Poll::Ready(v) => return v,
            Poll::Pending => {
                n += 1;
                if n > POLL_HORIZON {
                    panic!(
                        "poll horizon: future still pending after {} polls",
                        POLL_HORIZON
                    );
                }
                // woken by an injected Pending (immediately) or by the blocking pool
                std::thread::park_timeout(std::time::Duration::from_millis(50));
            }
        }
    }
}

// ------------------------------------------------------------------------------------
// environment wrapper

#[derive(Debug)]
pub struct ACtl {
    pub order: Order,
    /// await points passed so far (only counted while armed)
    pub points: AtomicUsize,
    pub armed: std::sync::atomic::AtomicBool,
    /// indices of await points that return Pending once
    pub plan: Mutex<Vec<usize>>,
}

impl ACtl {
    pub fn new(order: Order) -> Arc<ACtl> {
        Arc::new(ACtl {
            order,
            points: AtomicUsize::new(0),
            armed: std::sync::atomic::AtomicBool::new(false),
            plan: Mutex::new(vec![]),
        })
    }
    pub fn arm(&self, plan: &[usize]) {
        *self.plan.lock().unwrap() = plan.to_vec();
        self.points.store(0, Ordering::SeqCst);
        self.armed.store(true, Ordering::SeqCst);
    }
    pub fn disarm(&self) -> usize {
        self.armed.store(false, Ordering::SeqCst);
        self.points.load(Ordering::SeqCst)
    }
    /// Registers one await point; true = this point must return Pending once.
    fn hit(&self) -> bool {
        if !self.armed.load(Ordering::SeqCst) {
            return false;
        }
        let i = self.points.fetch_add(1, Ordering::SeqCst);
        self.plan.lock().unwrap().contains(&i)
    }
}

/// A future that is Pending exactly once if asked to.
struct MaybePending {
    pend: bool,
}

impl Future for MaybePending {
    type Output = ();
    fn poll(mut self: Pin<&mut Self>, cx: &mut Context<'_>) -> Poll<()> {
        if self.pend {
            self.pend = false;
            cx.waker().wake_by_ref();
            Poll::Pending
        } else {
            Poll::Ready(())
        }
    }
}

struct PendStream {
    inner: Box<dyn Unpin + Stream<Item = String> + Send>,
    ctl: Arc<ACtl>,
    /// the await point for the item currently being fetched has been registered
    registered: bool,
}

impl Stream for PendStream {
    type Item = String;
    fn poll_next(self: Pin<&mut Self>, cx: &mut Context<'_>) -> Poll<Option<String>> {
        let this = self.get_mut();
        if !this.registered {
            this.registered = true;
            if this.ctl.hit() {
                cx.waker().wake_by_ref();
                return Poll::Pending;
            }
        }
        match this.inner.poll_next_unpin(cx) {
            Poll::Ready(x) => {
                this.registered = false;
                Poll::Ready(x)
            }
            Poll::Pending => Poll::Pending,
        }
    }
}

#[derive(Debug)]
pub struct AWrap {
    inner: Arc<dyn AsyncFileSystem>,
    ctl: Arc<ACtl>,
}

impl AWrap {
    async fn point(&self) {
        MaybePending {
            pend: self.ctl.hit(),
        }
        .await
    }
}

#[async_trait]
impl AsyncFileSystem for AWrap {
    async fn read_dir(
        &self,
        path: &str,
    ) -> VfsResult<Box<dyn Unpin + Stream<Item = String> + Send>> {
        self.point().await;
        let s = self.inner.read_dir(path).await?;
        let s: Box<dyn Unpin + Stream<Item = String> + Send> = match self.ctl.order {
            Order::Native => s,
            order => {
                let mut v: Vec<String> = s.collect().await;
                v.sort();
                if order == Order::Desc {
                    v.reverse();
                }
                Box::new(futures::stream::iter(v))
            }
        };
        Ok(Box::new(PendStream {
            inner: s,
            ctl: self.ctl.clone(),
            registered: false,
        }))
    }
    async fn create_dir(&self, path: &str) -> VfsResult<()> {
        self.point().await;
        self.inner.create_dir(path).await
    }
    async fn open_file(
        &self,
        path: &str,
    ) -> VfsResult<Box<dyn vfs::async_vfs::SeekAndRead + Send + Unpin>> {
        self.point().await;
        self.inner.open_file(path).await
    }
    async fn create_file(
        &self,
        path: &str,
    ) -> VfsResult<Box<dyn async_std::io::Write + Send + Unpin>> {
        self.point().await;
        self.inner.create_file(path).await
    }
    async fn append_file(
        &self,
        path: &str,
    ) -> VfsResult<Box<dyn async_std::io::Write + Send + Unpin>> {
        self.point().await;
        self.inner.append_file(path).await
    }
    async fn metadata(&self, path: &str) -> VfsResult<VfsMetadata> {
        self.point().await;
        self.inner.metadata(path).await
    }
    async fn set_creation_time(&self, path: &str, time: SystemTime) -> VfsResult<()> {
        self.point().await;
        self.inner.set_creation_time(path, time).await
    }
    async fn set_modification_time(&self, path: &str, time: SystemTime) -> VfsResult<()> {
        self.point().await;
        self.inner.set_modification_time(path, time).await
    }
    async fn set_access_time(&self, path: &str, time: SystemTime) -> VfsResult<()> {
        self.point().await;
        self.inner.set_access_time(path, time).await
    }
    async fn exists(&self, path: &str) -> VfsResult<bool> {
        self.point().await;
        self.inner.exists(path).await
    }
    async fn remove_file(&self, path: &str) -> VfsResult<()> {
        self.point().await;
        self.inner.remove_file(path).await
    }
    async fn remove_dir(&self, path: &str) -> VfsResult<()> {
        self.point().await;
        self.inner.remove_dir(path).await
    }
    async fn copy_file(&self, src: &str, dest: &str) -> VfsResult<()> {
        self.point().await;
        self.inner.copy_file(src, dest).await
    }
    async fn move_file(&self, src: &str, dest: &str) -> VfsResult<()> {
        self.point().await;
        self.inner.move_file(src, dest).await
    }
    async fn move_dir(&self, src: &str, dest: &str) -> VfsResult<()> {
        self.point().await;
        self.inner.move_dir(src, dest).await
    }
}

// ------------------------------------------------------------------------------------
// blocking PathApi view

#[derive(Clone)]
pub struct ABlock(pub AsyncVfsPath);

fn v<T>(r: Result<T, vfs::VfsError>) -> R<T> {
    r.map_err(|e| einfo(&e))
}

impl PathApi for ABlock {
    fn as_string(&self) -> String {
        self.0.as_str().to_string()
    }
    fn join(&self, s: &str) -> R<Self> {
        v(self.0.join(s)).map(ABlock)
    }
    fn parent(&self) -> Self {
        ABlock(self.0.parent())
    }
    fn filename(&self) -> String {
        self.0.filename()
    }
    fn exists(&self) -> R<bool> {
        v(block_on(self.0.exists()))
    }
    fn metadata(&self) -> R<Meta> {
        v(block_on(self.0.metadata())).map(meta_of)
    }
    fn is_file(&self) -> R<bool> {
        v(block_on(self.0.is_file()))
    }
    fn is_dir(&self) -> R<bool> {
        v(block_on(self.0.is_dir()))
    }
    fn read_dir(&self) -> R<Vec<Self>> {
        block_on(async {
            let s = v(self.0.read_dir().await)?;
            Ok(s.map(ABlock).collect::<Vec<_>>().await)
        })
    }
    fn read_all(&self) -> R<Vec<u8>> {
        block_on(async {
            let mut f = v(self.0.open_file().await)?;
            let mut buf = Vec::new();
            f.read_to_end(&mut buf).await.map_err(|e| io_einfo(&e))?;
            Ok(buf)
        })
    }
    fn read_to_string(&self) -> R<String> {
        v(block_on(self.0.read_to_string()))
    }
    fn walk(&self) -> R<Vec<R<Self>>> {
        block_on(async {
            let mut it = v(self.0.walk_dir().await)?;
            let mut out = Vec::new();
            while let Some(item) = it.next().await {
                out.push(v(item).map(ABlock));
                if out.len() > 100_000 {
                    break;
                }
            }
            // a finished stream must stay finished
            Ok(out)
        })
    }
    fn create_dir(&self) -> R<()> {
        v(block_on(self.0.create_dir()))
    }
    fn create_dir_all(&self) -> R<()> {
        v(block_on(self.0.create_dir_all()))
    }
    fn write_file(&self, bytes: &[u8]) -> R<()> {
        let f = block_on(async {
            let mut f = v(self.0.create_file().await)?;
            f.write_all(bytes).await.map_err(|e| io_einfo(&e))?;
            f.flush().await.map_err(|e| io_einfo(&e))?;
            Ok::<_, EInfo>(f)
        })?;
        drop(f); // AsyncMemoryFS publishes on drop
        Ok(())
    }
    fn append(&self, bytes: &[u8]) -> R<()> {
        let f = block_on(async {
            let mut f = v(self.0.append_file().await)?;
            f.write_all(bytes).await.map_err(|e| io_einfo(&e))?;
            f.flush().await.map_err(|e| io_einfo(&e))?;
            Ok::<_, EInfo>(f)
        })?;
        drop(f);
        Ok(())
    }
    fn remove_file(&self) -> R<()> {
        v(block_on(self.0.remove_file()))
    }
    fn remove_dir(&self) -> R<()> {
        v(block_on(self.0.remove_dir()))
    }
    fn remove_dir_all(&self) -> R<()> {
        v(block_on(self.0.remove_dir_all()))
    }
    fn copy_file(&self, dest: &Self) -> R<()> {
        v(block_on(self.0.copy_file(&dest.0)))
    }
    fn move_file(&self, dest: &Self) -> R<()> {
        v(block_on(self.0.move_file(&dest.0)))
    }
    fn copy_dir(&self, dest: &Self) -> R<u64> {
        v(block_on(self.0.copy_dir(&dest.0)))
    }
    fn move_dir(&self, dest: &Self) -> R<()> {
        v(block_on(self.0.move_dir(&dest.0)))
    }
    fn set_time(&self, field: TimeField, t: SystemTime) -> R<()> {
        v(block_on(async {
            match field {
                TimeField::Created => self.0.set_creation_time(t).await,
                TimeField::Modified => self.0.set_modification_time(t).await,
                TimeField::Accessed => self.0.set_access_time(t).await,
            }
        }))
    }
}

// ------------------------------------------------------------------------------------
// async stacks

pub struct ABase {
    pub label: String,
    pub raw: AsyncVfsPath,
    pub prefix: String,
    pub upper: bool,
}

pub struct ABuilt {
    pub root: AsyncVfsPath,
    pub bases: Vec<ABase>,
    pub ctl: Arc<ACtl>,
    _scratch: Vec<Scratch>,
}

impl ABuilt {
    /// host directories `<scratch>/outer` of the physical bases (their roots are `outer/root`)
    pub fn phys_outer_dirs(&self) -> Vec<std::path::PathBuf> {
        self._scratch.iter().map(|s| s.path.join("outer")).collect()
    }
}

#[derive(Debug)]
struct SharedAsync(Arc<dyn AsyncFileSystem>);

#[async_trait]
impl AsyncFileSystem for SharedAsync {
    async fn read_dir(
        &self,
        path: &str,
    ) -> VfsResult<Box<dyn Unpin + Stream<Item = String> + Send>> {
        self.0.read_dir(path).await
    }
    async fn create_dir(&self, path: &str) -> VfsResult<()> {
        self.0.create_dir(path).await
    }
    async fn open_file(
        &self,
        path: &str,
    ) -> VfsResult<Box<dyn vfs::async_vfs::SeekAndRead + Send + Unpin>> {
        self.0.open_file(path).await
    }
    async fn create_file(
        &self,
        path: &str,
    ) -> VfsResult<Box<dyn async_std::io::Write + Send + Unpin>> {
        self.0.create_file(path).await
    }
    async fn append_file(
        &self,
        path: &str,
    ) -> VfsResult<Box<dyn async_std::io::Write + Send + Unpin>> {
        self.0.append_file(path).await
    }
    async fn metadata(&self, path: &str) -> VfsResult<VfsMetadata> {
        self.0.metadata(path).await
    }
    async fn set_creation_time(&self, path: &str, time: SystemTime) -> VfsResult<()> {
        self.0.set_creation_time(path, time).await
    }
    async fn set_modification_time(&self, path: &str, time: SystemTime) -> VfsResult<()> {
        self.0.set_modification_time(path, time).await
    }
    async fn set_access_time(&self, path: &str, time: SystemTime) -> VfsResult<()> {
        self.0.set_access_time(path, time).await
    }
    async fn exists(&self, path: &str) -> VfsResult<bool> {
        self.0.exists(path).await
    }
    async fn remove_file(&self, path: &str) -> VfsResult<()> {
        self.0.remove_file(path).await
    }
    async fn remove_dir(&self, path: &str) -> VfsResult<()> {
        self.0.remove_dir(path).await
    }
    async fn copy_file(&self, src: &str, dest: &str) -> VfsResult<()> {
        self.0.copy_file(src, dest).await
    }
    async fn move_file(&self, src: &str, dest: &str) -> VfsResult<()> {
        self.0.move_file(src, dest).await
    }
    async fn move_dir(&self, src: &str, dest: &str) -> VfsResult<()> {
        self.0.move_dir(src, dest).await
    }
}

struct ABuilder {
    ctl: Arc<ACtl>,
    bases: Vec<ABase>,
    scratch: Vec<Scratch>,
}

impl ABuilder {
    fn node(&mut self, cfg: &Cfg, id: &str, upper: bool) -> AsyncVfsPath {
        let fs: Arc<dyn AsyncFileSystem> = match cfg {
            Cfg::Mem => {
                let shared: Arc<dyn AsyncFileSystem> = Arc::new(AsyncMemoryFS::new());
                self.bases.push(ABase {
                    label: format!("AsyncMem@{}", id),
                    raw: AsyncVfsPath::new(SharedAsync(shared.clone())),
                    prefix: String::new(),
                    upper,
                });
                shared
            }
            Cfg::Phys => {
                let sc = Scratch::new();
                let root = sc.path.join("outer").join("root");
                std::fs::create_dir_all(&root).expect("HARNESS: scratch");
                self.bases.push(ABase {
                    label: format!("AsyncPhys@{}", id),
                    raw: AsyncVfsPath::new(AsyncPhysicalFS::new(&root)),
                    prefix: String::new(),
                    upper,
                });
                self.scratch.push(sc);
                Arc::new(AsyncPhysicalFS::new(&root))
            }
            Cfg::Alt(inner, p) => {
                let first = self.bases.len();
                let s = self.node(inner, &format!("{}.0", id), upper);
                let root = if p.is_empty() {
                    s.clone()
                } else {
                    s.join(&p[1..]).expect("HARNESS: altroot prefix")
                };
                block_on(root.create_dir_all()).expect("HARNESS: create altroot directory");
                // the same sentinels as the sync builder
                let sb = ABlock(s.clone());
                if !p.is_empty() {
                    let sdir = sb.join("S").unwrap();
                    let _ = sdir.create_dir();
                    let _ = sdir.join("f").unwrap().write_file(b"sentinel");
                    let _ = sb
                        .join(&format!("{}x", &p[1..]))
                        .unwrap()
                        .write_file(b"sibling");
                    let mut anc = crate::ops::parent_of(p);
                    while !anc.is_empty() {
                        let _ = sb
                            .join(&format!("{}/sf", &anc[1..]))
                            .unwrap()
                            .write_file(b"anc");
                        anc = crate::ops::parent_of(&anc);
                    }
                }
                for b in &mut self.bases[first..] {
                    b.prefix = format!("{}{}", b.prefix, p);
                }
                Arc::new(AsyncAltrootFS::new(root))
            }
            Cfg::OvShared(inner, dirs) => {
                let first = self.bases.len();
                let s = self.node(inner, &format!("{}.0", id), upper);
                assert!(self.bases.len() == first + 1, "HARNESS: OvShared needs a leaf filesystem");
                let proto = self.bases.pop().unwrap();
                let mut roots = vec![];
                for (i, d) in dirs.iter().enumerate() {
                    let dir = s.join(&d[1..]).expect("HARNESS: shared layer path");
                    block_on(dir.create_dir_all()).expect("HARNESS: create shared layer directory");
                    roots.push(dir);
                    self.bases.push(ABase {
                        label: format!("{}{}", proto.label, d),
                        raw: proto.raw.clone(),
                        prefix: d.clone(),
                        upper: upper || i == 0,
                    });
                }
                Arc::new(AsyncOverlayFS::new(&roots))
            }
            Cfg::Sub(inner, p, exists) => {
                let first = self.bases.len();
                let s = self.node(inner, &format!("{}.0", id), upper);
                let dir = s.join(&p[1..]).expect("HARNESS: sub path");
                if *exists {
                    block_on(dir.create_dir_all()).expect("HARNESS: create sub directory");
                }
                for b in &mut self.bases[first..] {
                    b.prefix = format!("{}{}", b.prefix, p);
                }
                return dir;
            }
            Cfg::Ov(layers) => {
                let mut roots = vec![];
                for (i, l) in layers.iter().enumerate() {
                    roots.push(self.node(l, &format!("{}.{}", id, i), upper || i == 0));
                }
                Arc::new(AsyncOverlayFS::new(&roots))
            }
        };
        AsyncVfsPath::new(AWrap {
            inner: fs,
            ctl: self.ctl.clone(),
        })
    }
}

pub fn abuild(cfg: &Cfg, order: Order, init: &[(usize, Vec<(String, Node)>)]) -> ABuilt {
    let ctl = ACtl::new(order);
    let mut b = ABuilder {
        ctl: ctl.clone(),
        bases: vec![],
        scratch: vec![],
    };
    let root = b.node(cfg, "0", false);
    let built = ABuilt {
        root,
        bases: b.bases,
        ctl,
        _scratch: b.scratch,
    };
    for (bi, entries) in init {
        let base = &built.bases[*bi];
        for (p, n) in entries {
            let full = format!("{}{}", base.prefix, p);
            let x = ABlock(base.raw.join(&full[1..]).expect("HARNESS: init path"));
            match n {
                Node::Dir => x.create_dir_all().expect("HARNESS: init dir"),
                Node::File(bytes) => {
                    x.parent().create_dir_all().expect("HARNESS: init parent");
                    x.write_file(bytes).expect("HARNESS: init file")
                }
            }
        }
    }
    built
}

/// The async stack as one side of a lock-step pair.
pub struct AsyncSys {
    pub built: ABuilt,
}

impl crate::pair::Sys for AsyncSys {
    fn apply(&self, op: &crate::ops::Op) -> (crate::ops::Outcome, Vec<crate::config::LogEntry>) {
        (
            crate::ops::apply(&ABlock(self.built.root.clone()), op),
            vec![],
        )
    }
    fn observe(&self, probes: &[String]) -> crate::snapshot::Snap {
        crate::snapshot::snapshot(&ABlock(self.built.root.clone()), probes)
    }
    fn raw_key(&self, probes: &[String], out: &mut Vec<u8>) {
        for (_, s) in self.raws(probes) {
            s.key_bytes(out);
            out.extend_from_slice(b"|ABASE|");
        }
    }
    fn raws(&self, probes: &[String]) -> Vec<(String, crate::snapshot::Snap)> {
        self.built
            .bases
            .iter()
            .map(|b| {
                let mut v = vec![];
                for u in probes.iter().chain(std::iter::once(&String::new())) {
                    v.push(format!("{}{}", b.prefix, u));
                    if b.upper {
                        v.push(format!("{}/.whiteout{}", b.prefix, u));
                        v.push(format!("{}/.whiteout{}_wo", b.prefix, u));
                    }
                }
                (
                    b.label.clone(),
                    crate::snapshot::snapshot(&ABlock(b.raw.clone()), &v),
                )
            })
            .collect()
    }
}

// ------------------------------------------------------------------------------------
// stdout silencing (the async read_dir of the library prints every entry with println!)

pub struct Silence {
    saved: i32,
}

impl Silence {
    pub fn start() -> Silence {
        use std::io::Write;
        let _ = std::io::stdout().flush();
        unsafe {
            let saved = libc::dup(1);
            let null = libc::open(
                b"/dev/null\0".as_ptr() as *const libc::c_char,
                libc::O_WRONLY,
            );
            libc::dup2(null, 1);
            libc::close(null);
            Silence { saved }
        }
    }
    /// Writes a progress line to the real stdout.
    pub fn say(&self, line: &str) {
        let s = format!("{}\n", line);
        unsafe {
            libc::write(self.saved, s.as_ptr() as *const libc::c_void, s.len());
        }
    }
}

impl Drop for Silence {
    fn drop(&mut self) {
        use std::io::Write;
        let _ = std::io::stdout().flush();
        unsafe {
            libc::dup2(self.saved, 1);
            libc::close(self.saved);
        }
    }
}
