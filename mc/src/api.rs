//! Uniform, blocking view of the sync (`VfsPath`) and async (`AsyncVfsPath`) path APIs.
//! Every harness engine talks to the library through `PathApi`, so the same drivers,
//! snapshots and oracles run against both worlds.

use std::io::{Read, Write};
use std::time::SystemTime;
use vfs::error::VfsErrorKind;
use vfs::{VfsError, VfsFileType, VfsPath};

#[derive(Clone, Copy, Debug, PartialEq, Eq, Hash, PartialOrd, Ord)]
pub enum Kind {
    NotFound,
    FileExists,
    DirExists,
    InvalidPath,
    NotSupported,
    Other,
    Io,
}

impl Kind {
    pub fn name(&self) -> &'static str {
        match self {
            Kind::NotFound => "NotFound",
            Kind::FileExists => "FileExists",
            Kind::DirExists => "DirExists",
            Kind::InvalidPath => "InvalidPath",
            Kind::NotSupported => "NotSupported",
            Kind::Other => "Other",
            Kind::Io => "Io",
        }
    }
}

#[derive(Clone, Debug, PartialEq, Eq)]
pub struct EInfo {
    pub kind: Kind,
    /// `VfsError::path()`; None for plain io::Errors coming out of handles
    pub path: Option<String>,
    pub display: String,
}

pub type R<T> = Result<T, EInfo>;

pub fn einfo(e: &VfsError) -> EInfo {
    let kind = match e.kind() {
        VfsErrorKind::FileNotFound => Kind::NotFound,
        VfsErrorKind::FileExists => Kind::FileExists,
        VfsErrorKind::DirectoryExists => Kind::DirExists,
        VfsErrorKind::InvalidPath => Kind::InvalidPath,
        VfsErrorKind::NotSupported => Kind::NotSupported,
        VfsErrorKind::Other(_) => Kind::Other,
        VfsErrorKind::IoError(_) => Kind::Io,
        VfsErrorKind::AsyncIoError(_) => Kind::Io,
    };
    EInfo {
        kind,
        path: Some(e.path().clone()),
        display: format!("{}", e),
    }
}

pub fn io_einfo(e: &std::io::Error) -> EInfo {
    EInfo {
        kind: if e.kind() == std::io::ErrorKind::NotFound {
            Kind::NotFound
        } else {
            Kind::Io
        },
        path: None,
        display: format!("io: {}", e),
    }
}

#[derive(Clone, Copy, Debug, PartialEq, Eq, Hash, PartialOrd, Ord)]
pub enum FType {
    File,
    Dir,
}

#[derive(Clone, Debug, PartialEq, Eq)]
pub struct Meta {
    pub ftype: FType,
    pub len: u64,
    pub created: Option<SystemTime>,
    pub modified: Option<SystemTime>,
    pub accessed: Option<SystemTime>,
}

pub fn meta_of(m: vfs::VfsMetadata) -> Meta {
    Meta {
        ftype: match m.file_type {
            VfsFileType::File => FType::File,
            VfsFileType::Directory => FType::Dir,
        },
        len: m.len,
        created: m.created,
        modified: m.modified,
        accessed: m.accessed,
    }
}

#[derive(Clone, Copy, Debug, PartialEq, Eq)]
pub enum TimeField {
    Created,
    Modified,
    Accessed,
}

/// The blocking path API used by all engines.
pub trait PathApi: Sized + Clone + Send + 'static {
    fn as_string(&self) -> String;
    fn join(&self, s: &str) -> R<Self>;
    fn parent(&self) -> Self;
    fn filename(&self) -> String;
    fn exists(&self) -> R<bool>;
    fn metadata(&self) -> R<Meta>;
    fn is_file(&self) -> R<bool>;
    fn is_dir(&self) -> R<bool>;
    fn read_dir(&self) -> R<Vec<Self>>;
    /// open_file + read to end
    fn read_all(&self) -> R<Vec<u8>>;
    fn read_to_string(&self) -> R<String>;
    fn walk(&self) -> R<Vec<R<Self>>>;
    fn create_dir(&self) -> R<()>;
    fn create_dir_all(&self) -> R<()>;
    /// create_file + write_all + drop/close
    fn write_file(&self, bytes: &[u8]) -> R<()>;
    /// append_file + write_all + drop/close
    fn append(&self, bytes: &[u8]) -> R<()>;
    fn remove_file(&self) -> R<()>;
    fn remove_dir(&self) -> R<()>;
    fn remove_dir_all(&self) -> R<()>;
    fn copy_file(&self, dest: &Self) -> R<()>;
    fn move_file(&self, dest: &Self) -> R<()>;
    fn copy_dir(&self, dest: &Self) -> R<u64>;
    fn move_dir(&self, dest: &Self) -> R<()>;
    fn set_time(&self, field: TimeField, t: SystemTime) -> R<()>;
}

fn v<T>(r: Result<T, VfsError>) -> R<T> {
    r.map_err(|e| einfo(&e))
}

impl PathApi for VfsPath {
    fn as_string(&self) -> String {
        self.as_str().to_string()
    }
    fn join(&self, s: &str) -> R<Self> {
        v(VfsPath::join(self, s))
    }
    fn parent(&self) -> Self {
        VfsPath::parent(self)
    }
    fn filename(&self) -> String {
        VfsPath::filename(self)
    }
    fn exists(&self) -> R<bool> {
        v(VfsPath::exists(self))
    }
    fn metadata(&self) -> R<Meta> {
        v(VfsPath::metadata(self)).map(meta_of)
    }
    fn is_file(&self) -> R<bool> {
        v(VfsPath::is_file(self))
    }
    fn is_dir(&self) -> R<bool> {
        v(VfsPath::is_dir(self))
    }
    fn read_dir(&self) -> R<Vec<Self>> {
        v(VfsPath::read_dir(self)).map(|it| it.collect())
    }
    fn read_all(&self) -> R<Vec<u8>> {
        let mut f = v(VfsPath::open_file(self))?;
        let mut buf = Vec::new();
        f.read_to_end(&mut buf).map_err(|e| io_einfo(&e))?;
        Ok(buf)
    }
    fn read_to_string(&self) -> R<String> {
        v(VfsPath::read_to_string(self))
    }
    fn walk(&self) -> R<Vec<R<Self>>> {
        let it = v(VfsPath::walk_dir(self))?;
        let mut out = Vec::new();
        for (n, item) in it.enumerate() {
            out.push(v(item));
            if n > 100_000 {
                out.push(Err(EInfo {
                    kind: Kind::Other,
                    path: None,
                    display: "HARNESS: walk did not terminate within 100000 items".into(),
                }));
                break;
            }
        }
        Ok(out)
    }
    fn create_dir(&self) -> R<()> {
        v(VfsPath::create_dir(self))
    }
    fn create_dir_all(&self) -> R<()> {
        v(VfsPath::create_dir_all(self))
    }
    fn write_file(&self, bytes: &[u8]) -> R<()> {
        let mut f = v(VfsPath::create_file(self))?;
        f.write_all(bytes).map_err(|e| io_einfo(&e))?;
        f.flush().map_err(|e| io_einfo(&e))?;
        drop(f);
        Ok(())
    }
    fn append(&self, bytes: &[u8]) -> R<()> {
        let mut f = v(VfsPath::append_file(self))?;
        f.write_all(bytes).map_err(|e| io_einfo(&e))?;
        f.flush().map_err(|e| io_einfo(&e))?;
        drop(f);
        Ok(())
    }
    fn remove_file(&self) -> R<()> {
        v(VfsPath::remove_file(self))
    }
    fn remove_dir(&self) -> R<()> {
        v(VfsPath::remove_dir(self))
    }
    fn remove_dir_all(&self) -> R<()> {
        v(VfsPath::remove_dir_all(self))
    }
    fn copy_file(&self, dest: &Self) -> R<()> {
        v(VfsPath::copy_file(self, dest))
    }
    fn move_file(&self, dest: &Self) -> R<()> {
        v(VfsPath::move_file(self, dest))
    }
    fn copy_dir(&self, dest: &Self) -> R<u64> {
        v(VfsPath::copy_dir(self, dest))
    }
    fn move_dir(&self, dest: &Self) -> R<()> {
        v(VfsPath::move_dir(self, dest))
    }
    fn set_time(&self, field: TimeField, t: SystemTime) -> R<()> {
        v(match field {
            TimeField::Created => self.set_creation_time(t),
            TimeField::Modified => self.set_modification_time(t),
            TimeField::Accessed => self.set_access_time(t),
        })
    }
}

// ------------------------------------------------------------------------------------
// panic capture

use std::cell::RefCell;
use std::panic::{catch_unwind, AssertUnwindSafe};

thread_local! {
    static LAST_PANIC: RefCell<Option<String>> = const { RefCell::new(None) };
    static QUIET: RefCell<bool> = const { RefCell::new(false) };
}

/// The last panic outside any `guard` (on any thread): read by `main` when the run itself unwinds.
pub static LAST_UNGUARDED_PANIC: std::sync::Mutex<Option<String>> = std::sync::Mutex::new(None);

/// Installs a panic hook that records message+location in a thread local and stays silent
/// while a `guard` call is active on the panicking thread.
pub fn install_panic_hook() {
    let prev = std::panic::take_hook();
    std::panic::set_hook(Box::new(move |info| {
        let quiet = QUIET.with(|q| *q.borrow());
        let loc = info
            .location()
            .map(|l| format!("{}:{}", l.file(), l.line()))
            .unwrap_or_default();
        let msg = if let Some(s) = info.payload().downcast_ref::<&str>() {
            s.to_string()
        } else if let Some(s) = info.payload().downcast_ref::<String>() {
            s.clone()
        } else {
            "<non-string panic>".to_string()
        };
        LAST_PANIC.with(|p| *p.borrow_mut() = Some(format!("{} @ {}", msg, loc)));
        if !quiet {
            *LAST_UNGUARDED_PANIC.lock().unwrap() = Some(format!("{} @ {}", msg, loc));
            prev(info);
        }
    }));
}

/// Runs `f`, turning a panic into `Err(message @ location)`.
pub fn guard<T>(f: impl FnOnce() -> T) -> Result<T, String> {
    let was = QUIET.with(|q| std::mem::replace(&mut *q.borrow_mut(), true));
    let r = catch_unwind(AssertUnwindSafe(f));
    QUIET.with(|q| *q.borrow_mut() = was);
    r.map_err(|_| {
        LAST_PANIC
            .with(|p| p.borrow_mut().take())
            .unwrap_or_else(|| "<panic>".into())
    })
}
