//! Verdicts: VIOLATION / KNOWN-FINDING lines, replay files, evidence JSON.

use crate::explore::Stats;
use serde_json::{json, Value};
use std::collections::BTreeMap;

#[derive(Clone, Debug)]
pub struct Violation {
    pub property: String,
    /// identifies the failing call site / input class; matched against known findings
    pub signature: String,
    pub summary: String,
    /// everything needed to replay: engine, configuration, initial contents, history, call ...
    pub replay: Value,
}

pub struct Finding {
    pub property: String,
    pub pattern: String,
    pub what: String,
}

pub fn glob_match(pat: &str, s: &str) -> bool {
    // '*' matches any (possibly empty) substring
    let parts: Vec<&str> = pat.split('*').collect();
    if parts.len() == 1 {
        return pat == s;
    }
    let mut pos = 0usize;
    for (i, part) in parts.iter().enumerate() {
        if i == 0 {
            if !s.starts_with(part) {
                return false;
            }
            pos = part.len();
        } else if i == parts.len() - 1 {
            return s.len() >= pos + part.len() && s[pos..].ends_with(part);
        } else {
            match s[pos..].find(part) {
                Some(j) => pos += j + part.len(),
                None => return false,
            }
        }
    }
    true
}

pub fn load_known_findings() -> Vec<Finding> {
    let path = "/verif/known_findings.json";
    let txt = match std::fs::read_to_string(path) {
        Ok(t) => t,
        Err(_) => return vec![],
    };
    let v: Value =
        serde_json::from_str(&txt).expect("MACHINERY: known_findings.json is not valid JSON");
    v["findings"]
        .as_array()
        .map(|a| {
            a.iter()
                .map(|f| Finding {
                    property: f["property"].as_str().unwrap_or("").to_string(),
                    pattern: f["signature"].as_str().unwrap_or("").to_string(),
                    what: f["what"].as_str().unwrap_or("").to_string(),
                })
                .collect()
        })
        .unwrap_or_default()
}

pub struct RunInfo {
    pub property: String,
    pub tier: String,
    pub seed: i64,
    pub level: String,
}

/// Prints verdict lines, writes replay files; returns the number of unlisted violations.
pub fn conclude(
    info: &RunInfo,
    violations: &[Violation],
    extra_counts: &BTreeMap<String, u64>,
) -> (usize, usize) {
    let known = load_known_findings();
    // a panic while the harness wrote initial contents with ordinary single-level calls
    let setup: Vec<Violation> = {
        let mut seen = std::collections::BTreeSet::new();
        crate::config::SETUP_PANICS
            .lock()
            .unwrap()
            .iter()
            .filter(|m| seen.insert(m.split(" @ ").last().unwrap_or("").to_string()))
            .map(|m| Violation {
                property: info.property.clone(),
                signature: format!("setup|panic|{}", m.split(" @ ").last().unwrap_or("")),
                summary: format!("writing the initial contents (create_dir / create_file+write per level) panicked: {}", m),
                replay: serde_json::json!({"engine": "setup", "message": m}),
            })
            .collect()
    };
    let violations: Vec<Violation> = violations.iter().cloned().chain(setup).collect();
    let violations = &violations[..];
    // first (= shortest history, BFS order) violation per signature
    let mut by_sig: BTreeMap<String, &Violation> = BTreeMap::new();
    let mut counts: BTreeMap<String, usize> = BTreeMap::new();
    for v in violations {
        by_sig.entry(v.signature.clone()).or_insert(v);
        *counts.entry(v.signature.clone()).or_insert(0) += 1;
    }
    for (k, n) in extra_counts {
        if let Some(c) = counts.get_mut(k) {
            *c = (*c).max(*n as usize);
        }
    }
    let mut matched: BTreeMap<usize, usize> = BTreeMap::new();
    let mut fresh: Vec<&Violation> = vec![];
    for (sig, v) in &by_sig {
        match known
            .iter()
            .position(|k| k.property == v.property && glob_match(&k.pattern, sig))
        {
            Some(i) => *matched.entry(i).or_insert(0) += counts[sig],
            None => fresh.push(v),
        }
    }
    for (i, n) in &matched {
        println!(
            "KNOWN-FINDING: property={} {} [{} occurrences, signature {}]",
            known[*i].property, known[*i].what, n, known[*i].pattern
        );
    }
    if std::env::var("VFSMC_LIST_SIGS").is_ok() {
        for (sig, v) in &by_sig {
            println!(
                "SIG {:6} {} :: {}",
                counts[sig],
                sig,
                v.summary.chars().take(300).collect::<String>()
            );
        }
    }
    let _ = std::fs::create_dir_all("/verif/replays");
    for (n, v) in fresh.iter().enumerate() {
        if n >= 25 {
            println!(
                "... {} further distinct violation signatures not listed",
                fresh.len() - n
            );
            break;
        }
        let h = crate::explore::hash128(v.signature.as_bytes()) as u32;
        let path = format!("/verif/replays/{}-{:08x}.json", v.property, h);
        let mut body = v.replay.clone();
        body["property"] = json!(v.property);
        body["signature"] = json!(v.signature);
        body["summary"] = json!(v.summary);
        body["occurrences"] = json!(counts[&v.signature]);
        let _ = std::fs::write(&path, serde_json::to_string_pretty(&body).unwrap());
        println!("VIOLATION property={} replay={}", v.property, path);
        println!("  signature: {}", v.signature);
        println!("  {}", v.summary);
    }
    let _ = info;
    (fresh.len(), matched.len())
}

pub fn stats_json(s: &Stats) -> Value {
    json!({
        "configuration": s.label,
        "states": s.states,
        "transitions": s.transitions,
        "bfs_depth_at_fixpoint": s.max_depth,
        "fixpoint_reached": s.fixpoint,
        "cap_hit": s.capped,
        "successors_not_expanded_after_violation": s.pruned_successors,
        "distinct_nontrivial": s.nontrivial,
        "counters": s.counters,
        "wall_s": (s.wall_s * 100.0).round() / 100.0,
    })
}

#[allow(clippy::too_many_arguments)]
pub fn write_evidence(
    info: &RunInfo,
    coverage: Value,
    assumptions: &[&str],
    wall_s: f64,
    violations: usize,
) {
    let ev = json!({
        "property_id": info.property,
        "tier": info.tier,
        "seed": info.seed,
        "level": info.level,
        "coverage": coverage,
        "assumptions": assumptions,
        "wall_s": (wall_s * 100.0).round() / 100.0,
        "violations": violations,
    });
    // (background exploration runs can be pointed elsewhere so that they do not overwrite the
    // evidence of the registered commands)
    let dir = std::env::var("VFSMC_EVIDENCE_DIR").unwrap_or_else(|_| "/verif/evidence".to_string());
    let _ = std::fs::create_dir_all(&dir);
    let path = format!("{}/{}.json", dir, info.property);
    std::fs::write(&path, serde_json::to_string_pretty(&ev).unwrap())
        .expect("MACHINERY: cannot write evidence");
}

/// Coverage object for BFS based checks from per-configuration statistics.
pub fn bfs_coverage(all: &[Stats], rule: &str, extra: Value) -> Value {
    let states: u64 = all.iter().map(|s| s.states).sum();
    let transitions: u64 = all.iter().map(|s| s.transitions).sum();
    let nontrivial: u64 = all.iter().map(|s| s.nontrivial).sum();
    let exhaustive = all.iter().all(|s| s.fixpoint);
    let mut samples: Vec<Value> = vec![];
    for s in all.iter() {
        for h in s.samples.iter() {
            if samples.len() < 12 {
                samples.push(json!({"configuration": s.label, "history": h}));
            }
        }
    }
    if samples.is_empty() {
        samples.push(json!({"note": "no successor states (single state spaces)"}));
    }
    let mut counters: BTreeMap<String, u64> = BTreeMap::new();
    for s in all {
        for (k, v) in &s.counters {
            *counters.entry(k.clone()).or_insert(0) += v;
        }
    }
    let mut cov = json!({
        "states": states.max(1),
        "transitions": transitions.max(1),
        "traces_validated_against_impl": transitions,
        "evaluations": transitions.max(1),
        "distinct_nontrivial": nontrivial,
        "rule": rule,
        "samples": samples,
        "exhaustive": exhaustive,
        "caps_hit": all.iter().filter_map(|s| s.capped.clone().map(|c| format!("{}: {}", s.label, c))).collect::<Vec<_>>(),
        "per_configuration": all.iter().map(stats_json).collect::<Vec<_>>(),
        "counters": counters,
    });
    if let Value::Object(m) = extra {
        for (k, v) in m {
            cov[k] = v;
        }
    }
    cov
}
