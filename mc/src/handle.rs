//! Handle engine: exhaustive read/seek and write/seek/flush scripts on handles of every
//! backend against `std::io::Cursor` (C04, C14).

use crate::api::*;
use crate::config::*;
use crate::model::Node;
use crate::report::Violation;
use rayon::prelude::*;
use serde_json::json;
use std::collections::BTreeMap;
use std::io::{Cursor, Read, Seek, SeekFrom, Write};
use vfs::VfsPath;

#[derive(Clone, Copy, Debug, PartialEq, Eq)]
pub enum HB {
    Mem,
    Phys,
    AltMem,
    AltPhys,
    OvUpper,
    OvLower,
    OvPhysLower,
    /// three layers: the file in the middle layer (served) and, with other bytes, in the bottom layer
    Ov3Lower,
    Embedded,
}

impl HB {
    pub fn label(&self) -> &'static str {
        match self {
            HB::Mem => "Mem",
            HB::Phys => "Phys",
            HB::AltMem => "Alt(Mem,/Z)",
            HB::AltPhys => "Alt(Phys,/Z)",
            HB::OvUpper => "Ov[Mem,Mem]/upper",
            HB::OvLower => "Ov[Mem,Mem]/lower-only",
            HB::OvPhysLower => "Ov[Phys,Phys]/lower-only",
            HB::Ov3Lower => "Ov[Mem,Mem,Mem]/middle+bottom",
            HB::Embedded => "Embedded",
        }
    }
    pub fn is_phys(&self) -> bool {
        matches!(self, HB::Phys | HB::AltPhys | HB::OvPhysLower)
    }
}

#[derive(rust_embed::RustEmbed, Debug)]
#[folder = "fixtures/embed"]
pub struct Fixture;

pub struct Live {
    _built: Option<Built>,
    pub file: VfsPath,
    pub root: VfsPath,
}

/// A live system whose path `/f` holds `prior` (None: absent).
pub fn setup(b: HB, prior: Option<&[u8]>) -> Live {
    if b == HB::Embedded {
        let root = VfsPath::new(vfs::EmbeddedFS::<Fixture>::new());
        let name = match prior {
            Some(b"") => "empty",
            Some(b"a") => "one",
            Some(b"abcd") => "four",
            _ => panic!("HARNESS: no embedded fixture for this content"),
        };
        return Live {
            _built: None,
            file: root.join(name).unwrap(),
            root,
        };
    }
    let (cfg, base) = match b {
        HB::Mem => (Cfg::Mem, 0),
        HB::Phys => (Cfg::Phys, 0),
        HB::AltMem => (Cfg::alt(Cfg::Mem, "/Z"), 0),
        HB::AltPhys => (Cfg::alt(Cfg::Phys, "/Z"), 0),
        HB::OvUpper => (Cfg::Ov(vec![Cfg::Mem, Cfg::Mem]), 0),
        HB::OvLower => (Cfg::Ov(vec![Cfg::Mem, Cfg::Mem]), 1),
        HB::OvPhysLower => (Cfg::Ov(vec![Cfg::Phys, Cfg::Phys]), 1),
        HB::Ov3Lower => (Cfg::Ov(vec![Cfg::Mem, Cfg::Mem, Cfg::Mem]), 1),
        HB::Embedded => unreachable!(),
    };
    let mut init: Init = match prior {
        Some(bytes) => vec![(base, vec![("/f".to_string(), Node::File(bytes.to_vec()))])],
        None => vec![],
    };
    if b == HB::Ov3Lower && prior.is_some() {
        // shadowed copy with other bytes and another length in the bottom layer
        init.push((2, vec![("/f".to_string(), Node::File(b"BOTTOM-LAYER".to_vec()))]));
    }
    let built = build(&cfg, Order::Asc, &init);
    let root = built.root.clone();
    Live {
        file: root.join("f").unwrap(),
        root,
        _built: Some(built),
    }
}

// ------------------------------------------------------------------------------------
// readers

#[derive(Clone, Copy, Debug, PartialEq)]
pub enum RStep {
    Read(usize),
    Seek(SeekFrom),
    /// `Read::read_to_end` on the same handle (whatever is left from the current position)
    ReadToEnd,
    /// `Read::read_exact` with a buffer of that size (an error if fewer bytes are left; what the
    /// buffer and the position look like afterwards is unspecified, so the script ends there)
    ReadExact(usize),
}

/// Offsets at the edge of the integer ranges (compared on everything except OS file handles,
/// whose lseek rejects offsets above i64::MAX where a cursor accepts them).
pub fn extreme_reader_steps() -> Vec<RStep> {
    vec![
        RStep::Seek(SeekFrom::Start(u64::MAX)),
        RStep::Seek(SeekFrom::Start(u64::MAX - 2)),
        RStep::Seek(SeekFrom::Current(i64::MAX)),
        RStep::Seek(SeekFrom::Current(i64::MIN)),
        RStep::Seek(SeekFrom::End(i64::MAX)),
        RStep::Seek(SeekFrom::End(i64::MIN)),
    ]
}

pub fn reader_steps(len: i64) -> Vec<RStep> {
    vec![
        RStep::Read(0),
        RStep::Read(1),
        RStep::Read(2),
        RStep::Read(5),
        RStep::Seek(SeekFrom::Start(0)),
        RStep::Seek(SeekFrom::Start(2)),
        RStep::Seek(SeekFrom::Start(len as u64)),
        RStep::Seek(SeekFrom::Start(len as u64 + 3)),
        RStep::Seek(SeekFrom::Current(-3)),
        RStep::Seek(SeekFrom::Current(-1)),
        RStep::Seek(SeekFrom::Current(1)),
        RStep::Seek(SeekFrom::Current(4)),
        RStep::Seek(SeekFrom::End(-len - 1)),
        RStep::Seek(SeekFrom::End(-1)),
        RStep::Seek(SeekFrom::End(0)),
        RStep::Seek(SeekFrom::End(2)),
        RStep::ReadToEnd,
        RStep::ReadExact(2),
    ]
}

#[derive(Clone, Debug, PartialEq)]
pub enum StepRes {
    Read(Vec<u8>),
    Pos(u64),
    Unit,
    Wrote(usize),
    Err,
    Panic(String),
}

pub fn step_name_pub(s: &RStep) -> String {
    step_name(s)
}

impl StepRes {
    pub fn class_pub(&self) -> String {
        self.class()
    }
    fn class(&self) -> String {
        match self {
            StepRes::Read(b) => format!("Ok(read {})", b.len()),
            StepRes::Pos(_) => "Ok(pos)".into(),
            StepRes::Unit => "Ok".into(),
            StepRes::Wrote(n) => format!("Ok(wrote {})", n),
            StepRes::Err => "Err".into(),
            StepRes::Panic(_) => "Panic".into(),
        }
    }
}

fn do_rstep<T: Read + Seek + ?Sized>(h: &mut T, s: &RStep) -> StepRes {
    match guard(|| match s {
        RStep::Read(n) => {
            let mut buf = vec![0u8; *n];
            match h.read(&mut buf) {
                Ok(k) if k <= *n => StepRes::Read(buf[..k].to_vec()),
                Ok(k) => StepRes::Panic(format!("read returned {} > buffer length {}", k, n)),
                Err(_) => StepRes::Err,
            }
        }
        RStep::Seek(p) => match h.seek(*p) {
            Ok(pos) => StepRes::Pos(pos),
            Err(_) => StepRes::Err,
        },
        RStep::ReadExact(n) => {
            let mut buf = vec![0u8; *n];
            match h.read_exact(&mut buf) {
                Ok(()) => StepRes::Read(buf),
                Err(_) => StepRes::Err,
            }
        }
        RStep::ReadToEnd => {
            let mut v = Vec::new();
            match h.read_to_end(&mut v) {
                Ok(k) if k == v.len() => StepRes::Read(v),
                Ok(k) => StepRes::Panic(format!(
                    "read_to_end returned {} but appended {} bytes",
                    k,
                    v.len()
                )),
                Err(_) => StepRes::Err,
            }
        }
    }) {
        Ok(r) => r,
        Err(m) => StepRes::Panic(m),
    }
}

pub fn do_rstep_pub<T: Read + Seek + ?Sized>(h: &mut T, s: &RStep) -> StepRes {
    do_rstep(h, s)
}

fn pos_class(pos: u64, len: usize) -> &'static str {
    if (pos as usize) < len {
        "pos<len"
    } else if pos as usize == len {
        "pos=len"
    } else {
        "pos>len"
    }
}

fn step_name(s: &RStep) -> String {
    match s {
        RStep::Read(n) => format!("read({})", n),
        RStep::Seek(SeekFrom::Start(_)) => "seek(Start)".into(),
        RStep::Seek(SeekFrom::Current(o)) => {
            format!("seek(Current{})", if *o < 0 { "-" } else { "+" })
        }
        RStep::Seek(SeekFrom::End(o)) => format!(
            "seek(End{})",
            if *o < 0 {
                "-"
            } else if *o == 0 {
                "0"
            } else {
                "+"
            }
        ),
        RStep::ReadToEnd => "read_to_end".into(),
        RStep::ReadExact(n) => format!("read_exact({})", n),
    }
}

pub struct HStats {
    pub scripts: u64,
    pub steps: u64,
    pub classes: BTreeMap<String, u64>,
    pub samples: Vec<String>,
}

/// Every reader script of exactly `depth` steps (hence every shorter one as a prefix) on a
/// fresh handle, call by call against `Cursor<&[u8]>`.
pub fn reader_scripts(
    property: &str,
    b: HB,
    content: &[u8],
    depth: usize,
    opener: &(dyn Fn(&Live) -> Result<Box<dyn vfs::SeekAndRead + Send>, String> + Sync),
) -> (HStats, Vec<Violation>) {
    let mut steps = reader_steps(content.len() as i64);
    if !b.is_phys() {
        steps.extend(extreme_reader_steps());
    }
    let n = steps.len();
    let total = n.pow(depth as u32);
    let results: Vec<(u64, BTreeMap<String, u64>, Vec<Violation>)> = (0..n)
        .into_par_iter()
        .map(|first| {
            let live = setup(b, Some(content));
            let mut vio = vec![];
            let mut classes: BTreeMap<String, u64> = BTreeMap::new();
            let mut nsteps = 0u64;
            let per = total / n;
            for rest in 0..per {
                let mut script = vec![steps[first]];
                let mut x = rest;
                for _ in 1..depth {
                    script.push(steps[x % n]);
                    x /= n;
                }
                let mut h = match opener(&live) {
                    Ok(h) => h,
                    Err(e) => {
                        vio.push(Violation {
                            property: property.into(),
                            signature: format!("{}|reader|open-failed", b.label()),
                            summary: format!("cannot open a file with content {:?} for reading: {}", content, e),
                            replay: json!({"engine": "handle", "backend": b.label()}),
                        });
                        return (0, classes, vio);
                    }
                };
                let mut model = Cursor::new(content);
                for (i, s) in script.iter().enumerate() {
                    let pos_before = model.position();
                    let want = do_rstep(&mut model, s);
                    let got = do_rstep(h.as_mut(), s);
                    nsteps += 1;
                    *classes.entry(format!("{}@{}:{}", step_name(s), pos_class(pos_before, content.len()), want.class())).or_insert(0) += 1;
                    if want != got {
                        vio.push(Violation {
                            property: property.into(),
                            signature: format!("{}|reader|{}@{}|exp={}|got={}", b.label(), step_name(s), pos_class(pos_before, content.len()), want.class(), got.class()),
                            summary: format!(
                                "reader on {} over {:?}: after {:?} the call {:?} at position {} returned {:?}, a cursor returns {:?}",
                                b.label(),
                                String::from_utf8_lossy(content),
                                &script[..i],
                                s,
                                pos_before,
                                got,
                                want
                            ),
                            replay: json!({"engine": "handle", "kind": "reader", "backend": b.label(), "content": content, "script": format!("{:?}", &script[..=i])}),
                        });
                        break;
                    }
                    // after a failed read_exact buffer and position are unspecified: the script ends
                    if matches!(s, RStep::ReadExact(_)) && want == StepRes::Err {
                        break;
                    }
                }
            }
            (nsteps, classes, vio)
        })
        .collect();
    let mut st = HStats {
        scripts: total as u64,
        steps: 0,
        classes: BTreeMap::new(),
        samples: vec![format!("{:?}", &steps[..depth.min(steps.len())])],
    };
    let mut vio = vec![];
    for (s, c, v) in results {
        st.steps += s;
        for (k, n) in c {
            *st.classes.entry(k).or_insert(0) += n;
        }
        vio.extend(v);
    }
    (st, dedupe(vio))
}

pub fn dedupe(v: Vec<Violation>) -> Vec<Violation> {
    let mut seen: BTreeMap<String, usize> = BTreeMap::new();
    let mut out = vec![];
    for x in v {
        let c = seen.entry(x.signature.clone()).or_insert(0);
        *c += 1;
        if *c <= 2 {
            out.push(x);
        }
    }
    out
}

// ------------------------------------------------------------------------------------
// writers

#[derive(Clone, Copy, Debug, PartialEq)]
pub enum WStep {
    Write(&'static [u8]),
    /// `Write::write_all` (a provided method a backend may override)
    WriteAll(&'static [u8]),
    /// `write!(h, "{}", 7)`: `Write::write_fmt`
    WriteFmt,
    Seek(SeekFrom),
    Flush,
}

pub fn writer_steps() -> Vec<WStep> {
    vec![
        WStep::Write(b"x"),
        WStep::Write(b"yz"),
        WStep::Write(b""),
        WStep::WriteAll(b"pq"),
        WStep::WriteFmt,
        WStep::Seek(SeekFrom::Start(0)),
        WStep::Seek(SeekFrom::Start(1)),
        WStep::Seek(SeekFrom::Start(5)),
        WStep::Seek(SeekFrom::Current(-1)),
        WStep::Seek(SeekFrom::Current(1)),
        WStep::Seek(SeekFrom::Current(3)),
        WStep::Seek(SeekFrom::End(-1)),
        WStep::Seek(SeekFrom::End(0)),
        WStep::Seek(SeekFrom::End(2)),
        WStep::Flush,
    ]
}

fn do_wstep<T: Write + Seek + ?Sized>(h: &mut T, s: &WStep) -> StepRes {
    match guard(|| match s {
        WStep::Write(b) => match h.write(b) {
            Ok(n) => StepRes::Wrote(n),
            Err(_) => StepRes::Err,
        },
        WStep::WriteAll(b) => match h.write_all(b) {
            Ok(()) => StepRes::Unit,
            Err(_) => StepRes::Err,
        },
        WStep::WriteFmt => match write!(h, "{}", 7) {
            Ok(()) => StepRes::Unit,
            Err(_) => StepRes::Err,
        },
        WStep::Seek(p) => match h.seek(*p) {
            Ok(pos) => StepRes::Pos(pos),
            Err(_) => StepRes::Err,
        },
        WStep::Flush => match h.flush() {
            Ok(()) => StepRes::Unit,
            Err(_) => StepRes::Err,
        },
    }) {
        Ok(r) => r,
        Err(m) => StepRes::Panic(m),
    }
}

pub fn do_wstep_pub<T: Write + Seek + ?Sized>(h: &mut T, s: &WStep) -> StepRes {
    do_wstep(h, s)
}

fn wstep_name(s: &WStep) -> String {
    match s {
        WStep::Write(b) => format!("write({})", b.len()),
        WStep::WriteAll(b) => format!("write_all({})", b.len()),
        WStep::WriteFmt => "write_fmt".into(),
        WStep::Seek(SeekFrom::Start(_)) => "seek(Start)".into(),
        WStep::Seek(SeekFrom::Current(o)) => {
            format!("seek(Current{})", if *o < 0 { "-" } else { "+" })
        }
        WStep::Seek(SeekFrom::End(o)) => format!(
            "seek(End{})",
            if *o < 0 {
                "-"
            } else if *o == 0 {
                "0"
            } else {
                "+"
            }
        ),
        WStep::Flush => "flush".into(),
    }
}

/// Every writer script of exactly `depth` steps on a create (append=false) or append handle.
/// After every flush and after the drop a fresh reader must return exactly the cursor's buffer
/// and metadata must report its length.
pub fn writer_scripts(
    property: &str,
    b: HB,
    prior: Option<&'static [u8]>,
    append: bool,
    depth: usize,
) -> (HStats, Vec<Violation>) {
    let steps = writer_steps();
    let n = steps.len();
    let total = n.pow(depth as u32);
    // O_APPEND handles ignore seeks by design: compare seeking append scripts on memory based stacks only
    let seeks_allowed = !(append && b.is_phys());
    let results: Vec<(u64, u64, BTreeMap<String, u64>, Vec<Violation>)> = (0..n)
        .into_par_iter()
        .map(|first| {
            let mut vio = vec![];
            let mut classes: BTreeMap<String, u64> = BTreeMap::new();
            let mut nsteps = 0u64;
            let mut nscripts = 0u64;
            let per = total / n;
            'scripts: for rest in 0..per {
                let mut script = vec![steps[first]];
                let mut x = rest;
                for _ in 1..depth {
                    script.push(steps[x % n]);
                    x /= n;
                }
                if !seeks_allowed && script.iter().any(|s| matches!(s, WStep::Seek(_))) {
                    continue;
                }
                nscripts += 1;
                let live = setup(b, prior);
                let mk = |tail: String, what: String, upto: usize| Violation {
                    property: property.into(),
                    signature: format!("{}|{}|prior={}|{}", b.label(), if append { "append-handle" } else { "create-handle" }, match prior { None => "absent", Some(p) if p.is_empty() => "empty", _ => "bytes" }, tail),
                    summary: format!("{} handle on {} (prior content {:?}), script {:?}: {}", if append { "append" } else { "create" }, b.label(), prior.map(String::from_utf8_lossy), &script[..upto], what),
                    replay: json!({"engine": "handle", "kind": "writer", "backend": b.label(), "append": append, "prior": prior, "script": format!("{:?}", &script[..upto])}),
                };
                let opened = guard(|| if append { live.file.append_file() } else { live.file.create_file() });
                let mut h = match opened {
                    Ok(Ok(h)) => {
                        if append && prior.is_none() {
                            vio.push(mk("open-should-fail".into(), "append_file on a missing file succeeded".into(), 0));
                            continue;
                        }
                        h
                    }
                    Ok(Err(_)) => {
                        if append && prior.is_none() {
                            continue; // expected
                        }
                        vio.push(mk("open-failed".into(), "opening the handle failed".into(), 0));
                        continue;
                    }
                    Err(m) => {
                        vio.push(mk("open-panic".into(), format!("opening the handle panicked: {}", m), 0));
                        continue;
                    }
                };
                let mut model: Cursor<Vec<u8>> = if append {
                    let mut c = Cursor::new(prior.unwrap_or(b"").to_vec());
                    c.seek(SeekFrom::End(0)).unwrap();
                    c
                } else {
                    Cursor::new(vec![])
                };
                let check_published = |model: &Cursor<Vec<u8>>, when: &str, upto: usize, vio: &mut Vec<Violation>| -> bool {
                    let want = model.get_ref().clone();
                    let got = guard(|| PathApi::read_all(&live.file));
                    let len = guard(|| PathApi::metadata(&live.file).map(|m| m.len));
                    match (&got, &len) {
                        (Ok(Ok(g)), Ok(Ok(l))) if *g == want && *l == want.len() as u64 => true,
                        _ => {
                            vio.push(mk(
                                format!("published-bytes-differ-after-{}", when),
                                format!("a fresh reader after {} returned {:?} (metadata len {:?}), the cursor holds {:?}", when, got.as_ref().map(|r| r.as_ref().map(|b| String::from_utf8_lossy(b).into_owned()).map_err(|e| e.display.clone())), len.as_ref().map(|r| r.as_ref().map_err(|e| e.display.clone())), String::from_utf8_lossy(&want)),
                                upto,
                            ));
                            false
                        }
                    }
                };
                // right after the open (once per backend / prior content / mode): an append handle has
                // not changed anything yet, a create handle has truncated
                if nscripts == 1 && !check_published(&model, "open", 0, &mut vio) {
                    continue 'scripts;
                }
                for (i, s) in script.iter().enumerate() {
                    if b.is_phys() && matches!(s, WStep::Write(b) if b.is_empty()) && model.position() > model.get_ref().len() as u64 {
                        // a zero-length write past the end: Cursor<Vec<u8>> zero-fills up to the
                        // position, a POSIX file does not; the contract does not say -> not compared on
                        // handles that end in a file of the host (memory based handles are cursors)
                        *classes.entry("unspecified:empty-write-past-end (script skipped)".into()).or_insert(0) += 1;
                        continue 'scripts;
                    }
                    let want = do_wstep(&mut model, s);
                    let got = do_wstep(h.as_mut(), s);
                    nsteps += 1;
                    *classes.entry(format!("{}:{}", wstep_name(s), want.class())).or_insert(0) += 1;
                    if want != got {
                        vio.push(mk(format!("{}|exp={}|got={}", wstep_name(s), want.class(), got.class()), format!("step {:?} returned {:?}, a cursor returns {:?}", s, got, want), i + 1));
                        continue 'scripts;
                    }
                    if *s == WStep::Flush && !check_published(&model, "flush", i + 1, &mut vio) {
                        continue 'scripts;
                    }
                }
                // epilogue: if the script has published something else in between and the buffer has
                // the length it had at the open, the last writes put the OPEN-TIME bytes back: the drop
                // must publish them (a handle may not conclude from "same bytes as at the open" that
                // there is nothing to publish)
                if append && seeks_allowed && script.iter().any(|s| *s == WStep::Flush) {
                    let open_bytes = prior.unwrap_or(b"");
                    if model.get_ref().len() == open_bytes.len() && model.get_ref().as_slice() != open_bytes {
                        *classes.entry("epilogue:open-time-bytes-written-back-after-a-flush".into()).or_insert(0) += 1;
                        for s in [WStep::Seek(SeekFrom::Start(0)), WStep::WriteAll(open_bytes)] {
                            let want = do_wstep(&mut model, &s);
                            let got = do_wstep(h.as_mut(), &s);
                            nsteps += 1;
                            if want != got {
                                vio.push(mk(format!("epilogue|{}|exp={}|got={}", wstep_name(&s), want.class(), got.class()), format!("after the script, step {:?} returned {:?}, a cursor returns {:?}", s, got, want), depth));
                                continue 'scripts;
                            }
                        }
                    }
                }
                if let Err(m) = guard(move || drop(h)) {
                    vio.push(mk("drop-panic".into(), format!("dropping the handle panicked: {}", m), depth));
                    continue;
                }
                check_published(&model, "drop", depth, &mut vio);
            }
            (nscripts, nsteps, classes, vio)
        })
        .collect();
    let mut st = HStats {
        scripts: 0,
        steps: 0,
        classes: BTreeMap::new(),
        samples: vec![format!("{:?}", &steps[..depth.min(steps.len())])],
    };
    let mut vio = vec![];
    for (sc, s, c, v) in results {
        st.scripts += sc;
        st.steps += s;
        for (k, n) in c {
            *st.classes.entry(k).or_insert(0) += n;
        }
        vio.extend(v);
    }
    (st, dedupe(vio))
}

// ------------------------------------------------------------------------------------
// lengths x buffer sizes

/// Append sessions on files beyond the usual size boundaries (1 MiB + 5 and 3 MiB): the file is
/// observed right after the handle was opened, after a flush and after the drop.
pub fn big_file_sessions(property: &str, backends: &[HB]) -> (u64, Vec<Violation>) {
    let mut n = 0u64;
    let mut vio = vec![];
    for b in backends {
        for len in [(1usize << 20) + 5, 3usize << 20] {
            let content = pattern(len);
            let via_lower = matches!(b, HB::OvLower | HB::OvPhysLower | HB::Ov3Lower);
            let live = setup(*b, if via_lower { Some(&content) } else { None });
            let mk = |tail: &str, what: String| Violation {
                property: property.into(),
                signature: format!("{}|big-file|{}", b.label(), tail),
                summary: format!("{} with a {} byte file: {}", b.label(), len, what),
                replay: json!({"engine": "handle", "kind": "big-file", "backend": b.label(), "len": len}),
            };
            if !via_lower {
                if let Err(e) = PathApi::write_file(&live.file, &content) {
                    vio.push(mk("write-failed", e.display));
                    continue;
                }
            }
            let observe = |want: &[u8], when: &str, vio: &mut Vec<Violation>| {
                match guard(|| (PathApi::read_all(&live.file), PathApi::metadata(&live.file))) {
                    Ok((Ok(g), Ok(m))) if g == want && m.len == want.len() as u64 => {}
                    other => vio.push(mk(&format!("differs-{}", when), format!("{}: read / metadata give {:?}, expected {} bytes", when, other.map(|(g, m)| (g.map(|g| g.len()).map_err(|e| e.display), m.map(|m| m.len).map_err(|e| e.display))), want.len()))),
                }
            };
            n += 1;
            observe(&content, "after-the-write-session", &mut vio);
            let r = guard(|| -> Result<(), String> {
                let mut h = live.file.append_file().map_err(|e| e.to_string())?;
                observe(&content, "after-opening-an-append-handle", &mut vio);
                h.write_all(b"Z").map_err(|e| e.to_string())?;
                h.flush().map_err(|e| e.to_string())?;
                let mut want = content.clone();
                want.push(b'Z');
                observe(&want, "after-flush", &mut vio);
                drop(h);
                observe(&want, "after-drop", &mut vio);
                Ok(())
            });
            if !matches!(r, Ok(Ok(()))) {
                vio.push(mk("session-failed", format!("{:?}", r)));
            }
        }
    }
    (n, dedupe(vio))
}

/// flag bit in a length given to `lengths_and_buffers`: content ends in zero bytes
pub const ZEROS: usize = 1 << 40;

pub fn pattern(n: usize) -> Vec<u8> {
    (0..n)
        .map(|i| [0xff, 0x00, 0xc3, 0x28, b'a', 0x80, b'\n'][i % 7])
        .collect()
}

fn read_with_buffer(p: &VfsPath, bs: usize) -> Result<Vec<u8>, String> {
    let mut f = p.open_file().map_err(|e| e.to_string())?;
    let mut out = vec![];
    let mut buf = vec![0u8; bs];
    let mut guard_iters = 0;
    loop {
        let n = f.read(&mut buf).map_err(|e| e.to_string())?;
        if n == 0 {
            break;
        }
        if n > bs {
            return Err(format!("read returned {} > buffer {}", n, bs));
        }
        out.extend_from_slice(&buf[..n]);
        guard_iters += 1;
        if guard_iters > 200_000 {
            return Err("reader never reaches EOF".into());
        }
    }
    Ok(out)
}

/// Contents of boundary lengths written, copied, moved, copied up and read back with every
/// buffer size.
pub fn lengths_and_buffers(
    property: &str,
    backends: &[HB],
    lens: &[usize],
    bufs: &[usize],
) -> (u64, u64, Vec<Violation>) {
    let work: Vec<(HB, usize)> = backends
        .iter()
        .flat_map(|b| lens.iter().map(move |l| (*b, *l)))
        .collect();
    let res: Vec<(u64, Vec<Violation>)> = work
        .par_iter()
        .map(|(b, len)| {
            let mut vio = vec![];
            let mut evals = 0u64;
            // lengths are given twice: with the non-UTF-8 pattern, and (len | ZEROS) with a tail of
            // zero bytes: the last 8 KiB (or everything, for shorter contents) is 0x00
            let zeros = *len & ZEROS != 0;
            let len = &(*len & !ZEROS);
            let mut content = pattern(*len);
            if zeros {
                let from = len.saturating_sub(8192);
                for x in &mut content[from..] {
                    *x = 0;
                }
            }
            // file created by a write session through the stack (or pre-existing in the lower layer)
            let via_lower = matches!(b, HB::OvLower | HB::OvPhysLower | HB::Ov3Lower);
            let live = setup(*b, if via_lower { Some(&content) } else { None });
            let mk = |tail: &str, what: String| Violation {
                property: property.into(),
                signature: format!("{}|lengths|{}", b.label(), tail),
                summary: format!("{} with a {} byte non-UTF-8 content: {}", b.label(), len, what),
                replay: json!({"engine": "handle", "kind": "lengths", "backend": b.label(), "len": len}),
            };
            if !via_lower {
                if let Err(e) = PathApi::write_file(&live.file, &content) {
                    vio.push(mk("write-failed", e.display));
                    return (evals, vio);
                }
            }
            let mut check = |p: &VfsPath, want: &[u8], what: &str, vio: &mut Vec<Violation>| {
                for bs in bufs {
                    evals += 1;
                    match guard(|| read_with_buffer(p, *bs)) {
                        Ok(Ok(g)) if g == want => {}
                        Ok(Ok(g)) => vio.push(mk(&format!("{}-bytes-differ", what), format!("reading {} with a {} byte buffer returned {} bytes (first difference at {:?}), expected {}", what, bs, g.len(), g.iter().zip(want.iter()).position(|(a, b)| a != b), want.len()))),
                        Ok(Err(e)) => vio.push(mk(&format!("{}-read-error", what), format!("reading {} with a {} byte buffer failed: {}", what, bs, e))),
                        Err(m) => vio.push(mk(&format!("{}-read-panic", what), format!("reading {} with a {} byte buffer panicked: {}", what, bs, m))),
                    }
                }
                // other ways of reading a whole file: a prefix with read()/read_exact, a BufReader line,
                // then read_to_end on the same handle
                for prefix in [1usize, 5, 8192] {
                    evals += 1;
                    let r = guard(|| -> Result<Vec<u8>, String> {
                        let mut f = p.open_file().map_err(|e| e.to_string())?;
                        let k = prefix.min(want.len());
                        let mut head = vec![0u8; k];
                        f.read_exact(&mut head).map_err(|e| e.to_string())?;
                        let mut rest = vec![];
                        f.read_to_end(&mut rest).map_err(|e| e.to_string())?;
                        head.extend(rest);
                        Ok(head)
                    });
                    match r {
                        Ok(Ok(g)) if g == want => {}
                        other => vio.push(mk(&format!("{}-read_exact-then-read_to_end", what), format!("read_exact({}) then read_to_end of {}: {:?}", prefix, what, other.map(|r| r.map(|g| g.len()))))),
                    }
                }
                evals += 1;
                let r = guard(|| -> Result<Vec<u8>, String> {
                    use std::io::BufRead;
                    let f = p.open_file().map_err(|e| e.to_string())?;
                    let mut br = std::io::BufReader::new(f);
                    let mut line = vec![];
                    br.read_until(b'\n', &mut line).map_err(|e| e.to_string())?;
                    let mut rest = vec![];
                    br.read_to_end(&mut rest).map_err(|e| e.to_string())?;
                    line.extend(rest);
                    Ok(line)
                });
                match r {
                    Ok(Ok(g)) if g == want => {}
                    other => vio.push(mk(&format!("{}-bufreader-line-then-read_to_end", what), format!("BufReader read_until then read_to_end of {}: {:?}", what, other.map(|r| r.map(|g| g.len()))))),
                }
                evals += 1;
                match guard(|| (PathApi::read_all(p), PathApi::metadata(p))) {
                    Ok((Ok(g), Ok(m))) if g == want && m.len == want.len() as u64 && m.ftype == FType::File => {}
                    other => vio.push(mk(&format!("{}-read_to_end-or-len", what), format!("read_to_end / metadata of {}: {:?}", what, other.map(|(g, m)| (g.map(|g| g.len()).map_err(|e| e.display), m.map(|m| m.len).map_err(|e| e.display)))))),
                }
            };
            check(&live.file, &content, "the file", &mut vio);
            // copy_file / move_file (std::io::copy with its 8 KiB buffer on the generic path)
            let c = live.root.join("copy").unwrap();
            match guard(|| live.file.copy_file(&c)) {
                Ok(Ok(())) => check(&c, &content, "the copy", &mut vio),
                other => vio.push(mk("copy_file-failed", format!("{:?}", other.map(|r| r.map_err(|e| e.to_string()))))),
            }
            check(&live.file, &content, "the source after copy_file", &mut vio);
            let m = live.root.join("moved").unwrap();
            match guard(|| c.move_file(&m)) {
                Ok(Ok(())) => {
                    check(&m, &content, "the moved file", &mut vio);
                    if c.exists().unwrap_or(true) {
                        vio.push(mk("move-left-source", "the source of move_file still exists".into()));
                    }
                }
                other => vio.push(mk("move_file-failed", format!("{:?}", other.map(|r| r.map_err(|e| e.to_string()))))),
            }
            // append continues the bytes (copy-up on overlays when the file is lower-only)
            match PathApi::append(&live.file, b"\xfe\xfd") {
                Ok(()) => {
                    let mut want = content.clone();
                    want.extend_from_slice(b"\xfe\xfd");
                    check(&live.file, &want, "the file after append", &mut vio);
                    // sessions on one path must not reach the bytes of a copy made earlier
                    if m.exists().unwrap_or(false) {
                        check(&m, &content, "the earlier copy after an append to the original", &mut vio);
                    }
                }
                Err(e) => vio.push(mk("append-failed", e.display)),
            }
            // truncating overwrite
            match PathApi::write_file(&live.file, b"t") {
                Ok(()) => {
                    check(&live.file, b"t", "the file after a truncating create_file", &mut vio);
                    if m.exists().unwrap_or(false) {
                        check(&m, &content, "the earlier copy after the original was overwritten", &mut vio);
                    }
                    // and the other way round: a session on the copy leaves the original alone
                    if PathApi::append(&m, b"\xfc").is_ok() {
                        check(&live.file, b"t", "the original after an append to the copy", &mut vio);
                    }
                }
                Err(e) => vio.push(mk("overwrite-failed", e.display)),
            }
            // the same bytes written in two pieces of very different size in one session (a short
            // write followed by a long one and the other way round), on create and on append handles
            if *len >= 2 {
                let sp = live.root.join("sp").unwrap();
                for k in [1usize, *len - 1] {
                    evals += 1;
                    let r = guard(|| -> Result<(), String> {
                        let mut h = sp.create_file().map_err(|e| e.to_string())?;
                        h.write_all(&content[..k]).map_err(|e| e.to_string())?;
                        h.write_all(&content[k..]).map_err(|e| e.to_string())?;
                        drop(h);
                        let mut h = sp.append_file().map_err(|e| e.to_string())?;
                        h.write_all(&content[k..]).map_err(|e| e.to_string())?;
                        h.write_all(&content[..k]).map_err(|e| e.to_string())?;
                        Ok(())
                    });
                    let mut want = content.clone();
                    want.extend_from_slice(&content[k..]);
                    want.extend_from_slice(&content[..k]);
                    match (r, guard(|| (PathApi::read_all(&sp), PathApi::metadata(&sp)))) {
                        (Ok(Ok(())), Ok((Ok(g), Ok(m)))) if g == want && m.len == want.len() as u64 => {}
                        (r, o) => vio.push(mk(
                            "two-writes-of-different-size-in-one-session",
                            format!(
                                "create: write({}) + write({}), append: write({}) + write({}): session {:?}, read back {:?} bytes (first difference at {:?}), expected {}",
                                k,
                                *len - k,
                                *len - k,
                                k,
                                r,
                                o.as_ref().map(|(g, _)| g.as_ref().map(|g| g.len()).map_err(|e| e.display.clone())),
                                o.as_ref().ok().and_then(|(g, _)| g.as_ref().ok()).and_then(|g| g.iter().zip(want.iter()).position(|(a, b)| a != b)),
                                want.len()
                            ),
                        )),
                    }
                }
            }
            (evals, vio)
        })
        .collect();
    let mut evals = 0;
    let mut vio = vec![];
    for (e, v) in res {
        evals += e;
        vio.extend(v);
    }
    (work.len() as u64, evals, dedupe(vio))
}
