//! Lock-step exploration of two live systems (C02: memory vs physical, C07: altroot vs its
//! translated twin, C15: sync vs async).  No model: each system is the other's oracle.

use crate::api::*;
use crate::config::*;
use crate::explore::*;
use crate::ops::*;
use crate::report::Violation;
use crate::snapshot::*;
use crate::tree::tclass;
use serde_json::{json, Value};
use std::hash::{Hash, Hasher};

/// A view of a path API below a fixed prefix: paths are reported relative to the prefix.
#[derive(Clone)]
pub struct Sub<P: PathApi> {
    pub inner: P,
    pub prefix: String,
}

impl<P: PathApi> Sub<P> {
    fn wrap(&self, inner: P) -> Sub<P> {
        Sub {
            inner,
            prefix: self.prefix.clone(),
        }
    }
}

impl<P: PathApi> PathApi for Sub<P> {
    fn as_string(&self) -> String {
        let s = self.inner.as_string();
        match s.strip_prefix(&self.prefix) {
            Some(rest) if rest.is_empty() || rest.starts_with('/') => rest.to_string(),
            _ => format!("<OUTSIDE {}>{}", self.prefix, s),
        }
    }
    fn join(&self, s: &str) -> R<Self> {
        self.inner.join(s).map(|p| self.wrap(p))
    }
    fn parent(&self) -> Self {
        self.wrap(self.inner.parent())
    }
    fn filename(&self) -> String {
        self.inner.filename()
    }
    fn exists(&self) -> R<bool> {
        self.inner.exists()
    }
    fn metadata(&self) -> R<Meta> {
        self.inner.metadata()
    }
    fn is_file(&self) -> R<bool> {
        self.inner.is_file()
    }
    fn is_dir(&self) -> R<bool> {
        self.inner.is_dir()
    }
    fn read_dir(&self) -> R<Vec<Self>> {
        self.inner
            .read_dir()
            .map(|v| v.into_iter().map(|p| self.wrap(p)).collect())
    }
    fn read_all(&self) -> R<Vec<u8>> {
        self.inner.read_all()
    }
    fn read_to_string(&self) -> R<String> {
        self.inner.read_to_string()
    }
    fn walk(&self) -> R<Vec<R<Self>>> {
        self.inner
            .walk()
            .map(|v| v.into_iter().map(|i| i.map(|p| self.wrap(p))).collect())
    }
    fn create_dir(&self) -> R<()> {
        self.inner.create_dir()
    }
    fn create_dir_all(&self) -> R<()> {
        self.inner.create_dir_all()
    }
    fn write_file(&self, bytes: &[u8]) -> R<()> {
        self.inner.write_file(bytes)
    }
    fn append(&self, bytes: &[u8]) -> R<()> {
        self.inner.append(bytes)
    }
    fn remove_file(&self) -> R<()> {
        self.inner.remove_file()
    }
    fn remove_dir(&self) -> R<()> {
        self.inner.remove_dir()
    }
    fn remove_dir_all(&self) -> R<()> {
        self.inner.remove_dir_all()
    }
    fn copy_file(&self, dest: &Self) -> R<()> {
        self.inner.copy_file(&dest.inner)
    }
    fn move_file(&self, dest: &Self) -> R<()> {
        self.inner.move_file(&dest.inner)
    }
    fn copy_dir(&self, dest: &Self) -> R<u64> {
        self.inner.copy_dir(&dest.inner)
    }
    fn move_dir(&self, dest: &Self) -> R<()> {
        self.inner.move_dir(&dest.inner)
    }
    fn set_time(&self, field: TimeField, t: std::time::SystemTime) -> R<()> {
        self.inner.set_time(field, t)
    }
}

/// One live system as seen by the pair explorer.
pub trait Sys {
    fn apply(&self, op: &Op) -> (Outcome, Vec<LogEntry>);
    fn observe(&self, probes: &[String]) -> Snap;
    fn raw_key(&self, probes: &[String], out: &mut Vec<u8>);
    /// raw snapshots of the base filesystems (label, snapshot)
    fn raws(&self, probes: &[String]) -> Vec<(String, Snap)>;
    /// what the filesystem directly below a top-level altroot shows outside `p`
    fn outside(&self, _p: &str) -> Vec<String> {
        vec![]
    }
}

/// A sync stack; operations and observations are made below `prefix` of its root.
pub struct SyncSys {
    pub built: Built,
    pub prefix: String,
}

impl SyncSys {
    fn view(&self) -> Sub<vfs::VfsPath> {
        let inner = at(&self.built.root, &self.prefix).expect("HARNESS: prefix");
        Sub {
            inner,
            prefix: self.prefix.clone(),
        }
    }
    fn base_probes(&self, base: &Base, probes: &[String]) -> Vec<String> {
        let mut v = vec![];
        for u in probes.iter().chain(std::iter::once(&String::new())) {
            v.push(format!("{}{}{}", base.prefix, self.prefix, u));
            if base.upper {
                v.push(format!("{}/.whiteout{}{}", base.prefix, self.prefix, u));
                v.push(format!("{}/.whiteout{}{}_wo", base.prefix, self.prefix, u));
            }
        }
        v
    }
}

impl Sys for SyncSys {
    fn apply(&self, op: &Op) -> (Outcome, Vec<LogEntry>) {
        let v = self.view();
        self.built.ctl.arm([0, 0]);
        let o = apply(&v, op);
        let log = self.built.ctl.disarm();
        (o, log)
    }
    fn observe(&self, probes: &[String]) -> Snap {
        snapshot(&self.view(), probes)
    }
    fn raw_key(&self, probes: &[String], out: &mut Vec<u8>) {
        for (_, s) in self.raws(probes) {
            s.key_bytes(out);
            out.extend_from_slice(b"|BASE|");
        }
    }
    fn raws(&self, probes: &[String]) -> Vec<(String, Snap)> {
        self.built
            .bases
            .iter()
            .map(|b| {
                (
                    b.label.clone(),
                    snapshot(&b.raw, &self.base_probes(b, probes)),
                )
            })
            .collect()
    }
    fn outside(&self, p: &str) -> Vec<String> {
        self.built.outside_altroot(p)
    }
}

#[derive(Clone, Debug, PartialEq)]
pub enum PairMode {
    /// C02: success/failure, not-found / already-exists classes, observable tree
    Behaviour,
    /// C07: additionally identical error kinds, identical raw snapshots, confinement below `p`
    AltTwin { p: String },
    /// C15: identical outcome classes and error kinds
    Port,
}

pub struct PairSpace {
    pub property: String,
    pub label: String,
    pub mode: PairMode,
    pub alphabet: Alphabet,
    pub ops: Vec<Op>,
    pub typed_domain: bool,
    pub mk_a: Box<dyn Fn() -> Box<dyn Sys> + Sync + Send>,
    pub mk_b: Box<dyn Fn() -> Box<dyn Sys> + Sync + Send>,
    pub sig_counts: std::sync::Mutex<std::collections::HashMap<String, usize>>,
}

#[derive(Clone)]
/// (non-zero: the history contains one refused call that changed nothing observable; see
/// `Alphabet::residue`)
pub struct PAux(pub u64);

impl PairSpace {
    fn rebuild(&self, hist: &[Op]) -> (Box<dyn Sys>, Box<dyn Sys>) {
        let a = (self.mk_a)();
        let b = (self.mk_b)();
        for op in hist {
            let _ = a.apply(op);
            let _ = b.apply(op);
        }
        (a, b)
    }
    fn key(&self, a: &dyn Sys, b: &dyn Sys) -> u128 {
        let mut bytes = vec![];
        a.raw_key(&self.alphabet.universe.paths, &mut bytes);
        bytes.extend_from_slice(b"#PAIR#");
        b.raw_key(&self.alphabet.universe.paths, &mut bytes);
        if self.alphabet.setters {
            // which timestamps carry the setters' instant is part of the state (a later setter may
            // behave differently once an earlier one has written the same value)
            for sys in [a, b] {
                for (p, f) in sys.observe(&self.alphabet.universe.paths).time_flags() {
                    bytes.extend_from_slice(p.as_bytes());
                    bytes.push(f[0] as u8 + 2 * f[1] as u8 + 4 * f[2] as u8);
                }
                bytes.push(0xff);
            }
        }
        hash128(&bytes)
    }
    fn op_enabled(&self, op: &Op, before: &Snap) -> bool {
        if let Op::Append(p, _) = op {
            if let Some(o) = before.entries.get(p) {
                if let Ok((FType::File, len)) = o.meta {
                    if len as usize >= self.alphabet.append_cap {
                        return false;
                    }
                }
            }
        }
        if let Op::CopyDir(p, q) | Op::MoveDir(p, q) | Op::CopyFile(p, q) | Op::MoveFile(p, q) = op
        {
            if is_within(q, p) && p != q {
                return false;
            }
            for d in before.existing() {
                if d.len() > p.len() && is_within(&d, p) && !p.is_empty() {
                    let target = format!("{}{}", q, &d[p.len()..]);
                    if !self.alphabet.universe.paths.contains(&target) {
                        return false;
                    }
                }
            }
        }
        if self.typed_domain {
            before.to_model().in_typed_domain(op)
        } else {
            !(op.path().is_empty()
                && matches!(
                    op,
                    Op::RemoveDir(_)
                        | Op::RemoveFile(_)
                        | Op::RemoveDirAll(_)
                        | Op::MoveDir(..)
                        | Op::MoveFile(..)
                ))
        }
    }
    fn want_full(&self, sig: &str) -> bool {
        let mut m = self.sig_counts.lock().unwrap();
        let c = m.entry(sig.to_string()).or_insert(0);
        *c += 1;
        *c <= 2
    }
    fn replay(&self, hist: &[Op], op: Option<&Op>, extra: Value) -> Value {
        let mut v = json!({
            "engine": "pair",
            "pair": self.label,
            "history": hist.iter().map(|o| o.to_json()).collect::<Vec<_>>(),
            "history_text": hist.iter().map(|o| o.show()).collect::<Vec<_>>(),
        });
        if let Some(op) = op {
            v["call"] = op.to_json();
            v["call_text"] = json!(op.show());
        }
        if let Value::Object(m) = extra {
            for (k, x) in m {
                v[k] = x;
            }
        }
        v
    }

    /// Compares one lock-step step; returns (signature tail, summary).
    #[allow(clippy::too_many_arguments)]
    fn compare(
        &self,
        op: &Op,
        before: &Snap,
        oa: &Outcome,
        ob: &Outcome,
        sa: &Snap,
        sb: &Snap,
        log_a: &[LogEntry],
        outside_before: &[String],
        a: &dyn Sys,
        b: &dyn Sys,
    ) -> Vec<(String, String)> {
        let mut v = vec![];
        let tc = tclass(before, op.path());
        let head = format!("{}|{}|{}", self.label, op.name(), tc);
        if let Outcome::Panic(m) = oa {
            v.push((
                format!("{}|panic-left", head),
                format!("{} panicked on the first system: {}", op.show(), m),
            ));
        }
        if let Outcome::Panic(m) = ob {
            v.push((
                format!("{}|panic-right", head),
                format!("{} panicked on the second system: {}", op.show(), m),
            ));
        }
        if self.alphabet.setters && sa.time_flags() != sb.time_flags() {
            v.push((
                format!("{}|timestamps-differ", head),
                format!("{}: the entries that carry the instant written by the setters differ: first system {:?}, second {:?}", op.show(), sa.time_flags(), sb.time_flags()),
            ));
        }
        if oa.is_ok() != ob.is_ok() {
            v.push((
                format!("{}|left={}|right={}", head, oa.class(), ob.class()),
                format!(
                    "{} ({}): first system {}, second system {}",
                    op.show(),
                    tc,
                    oa.short(),
                    ob.short()
                ),
            ));
        } else if let (Outcome::Ok(x), Outcome::Ok(y)) = (oa, ob) {
            if x != y {
                v.push((
                    format!("{}|return-values-differ", head),
                    format!(
                        "{}: first system returned {:?}, second {:?}",
                        op.show(),
                        x,
                        y
                    ),
                ));
            }
        } else if let (Outcome::Err(x), Outcome::Err(y)) = (oa, ob) {
            let same_kind_needed = matches!(self.mode, PairMode::Port);
            if same_kind_needed {
                if x.kind != y.kind {
                    v.push((
                        format!(
                            "{}|left=Err({})|right=Err({})",
                            head,
                            x.kind.name(),
                            y.kind.name()
                        ),
                        format!(
                            "{} ({}): error kinds differ: {} vs {}",
                            op.show(),
                            tc,
                            x.display,
                            y.display
                        ),
                    ));
                }
            } else {
                let missing = tc == "absent" && op.dest().is_none();
                if missing && (x.kind == Kind::NotFound) != (y.kind == Kind::NotFound) {
                    v.push((
                        format!(
                            "{}|not-found-class|left=Err({})|right=Err({})",
                            head,
                            x.kind.name(),
                            y.kind.name()
                        ),
                        format!(
                            "{} on an entry missing from an existing directory: {} vs {}",
                            op.show(),
                            x.display,
                            y.display
                        ),
                    ));
                }
                let ex = |k: Kind| k == Kind::FileExists || k == Kind::DirExists;
                if ex(x.kind) != ex(y.kind) {
                    v.push((
                        format!(
                            "{}|already-exists-class|left=Err({})|right=Err({})",
                            head,
                            x.kind.name(),
                            y.kind.name()
                        ),
                        format!(
                            "{} ({}): already-exists classification differs: {} vs {}",
                            op.show(),
                            tc,
                            x.display,
                            y.display
                        ),
                    ));
                }
            }
        }
        if !sa.same_tree(sb) {
            let da = sa.dump();
            let db = sb.dump();
            let diff: Vec<String> = da
                .iter()
                .filter(|l| !db.contains(l))
                .map(|l| format!("first: {}", l))
                .chain(
                    db.iter()
                        .filter(|l| !da.contains(l))
                        .map(|l| format!("second: {}", l)),
                )
                .collect();
            v.push((
                format!("{}|trees-differ|{}", head, oa.class()),
                format!(
                    "after {} ({}) the observable trees differ: {}; walks {:?} vs {:?}",
                    op.show(),
                    tc,
                    diff.join(" ; "),
                    sa.walk_set(),
                    sb.walk_set()
                ),
            ));
        }
        if let PairMode::AltTwin { p } = &self.mode {
            // exactness on the raw level
            let ra = a.raws(&self.alphabet.universe.paths);
            let rb = b.raws(&self.alphabet.universe.paths);
            for ((la, x), (_, y)) in ra.iter().zip(rb.iter()) {
                if !x.same_tree(y) {
                    v.push((format!("{}|raw-trees-differ", head), format!("after {} the underlying filesystem {} differs from the twin's: {:?} vs {:?}", op.show(), la, x.dump(), y.dump())));
                }
            }
            // confinement: every path argument that reaches the underlying filesystem lies below P
            for e in log_a {
                if e.node == "0" {
                    continue;
                }
                // only the node directly below the altroot speaks P-relative paths of that filesystem
                if e.node != "0.0" {
                    continue;
                }
                let inside = |x: &str| x == p || x.starts_with(&format!("{}/", p)) || p.is_empty();
                // a call on the altroot's own root is the same call on P, which has to look at
                // P's parent (exists / metadata) exactly as the twin does: not an escape
                let on_root = op.path().is_empty() || op.dest() == Some("");
                if on_root && !is_mutating(e.method) && e.path == parent_of(p) {
                    continue;
                }
                if !inside(&e.path) || !e.dest.as_deref().map(inside).unwrap_or(true) {
                    v.push((
                        format!("{}|call-outside-altroot|{}", head, e.method),
                        format!("{} made the altroot call {}({:?}{}) on the underlying filesystem, outside {:?}", op.show(), e.method, e.path, e.dest.as_ref().map(|d| format!(", {:?}", d)).unwrap_or_default(), p),
                    ));
                }
            }
            // confinement: nothing outside P changed in the filesystem the altroot is rooted in
            let after_outside = a.outside(p);
            if *outside_before != after_outside {
                v.push((
                    format!("{}|changed-outside-altroot", head),
                    format!(
                        "{} changed the underlying filesystem outside {:?}: before {:?} after {:?}",
                        op.show(),
                        p,
                        outside_before,
                        after_outside
                    ),
                ));
            }
        }
        v
    }
}

/// Does a dump line (starting with the quoted path) describe a path at or below `p`?
fn line_is_below(line: &str, p: &str) -> bool {
    if p.is_empty() {
        return true;
    }
    let quoted = format!("{:?}", p);
    let q = &quoted[..quoted.len() - 1]; // without the closing quote
    line.starts_with(&format!("{}\"", q)) || line.starts_with(&format!("{}/", q))
}

impl Space for PairSpace {
    type Aux = PAux;
    fn label(&self) -> String {
        format!("{} {}", self.label, self.alphabet.universe.name)
    }
    fn initial(&self) -> Vec<(PAux, u128, Vec<Violation>)> {
        let (a, b) = self.rebuild(&[]);
        let probes = &self.alphabet.universe.paths;
        let sa = a.observe(probes);
        let sb = b.observe(probes);
        let mut vio = vec![];
        if !sa.same_tree(&sb) {
            vio.push(Violation {
                property: self.property.clone(),
                signature: format!("{}|initial-trees-differ", self.label),
                summary: format!(
                    "initial observable trees differ: {:?} vs {:?}",
                    sa.dump(),
                    sb.dump()
                ),
                replay: self.replay(&[], None, json!({})),
            });
        }
        vec![(PAux(0), self.key(a.as_ref(), b.as_ref()), vio)]
    }
    fn expand(&self, st: &State<PAux>) -> Expansion<PAux> {
        let mut e = Expansion::<PAux>::default();
        let probes = &self.alphabet.universe.paths;
        let mut sys = Some(self.rebuild(&st.hist));
        let (a0, b0) = sys.as_ref().unwrap();
        let tag = st.aux.0;
        if self.key(a0.as_ref(), b0.as_ref()) ^ (tag as u128) != st.key {
            // The replay runs the calls back to back and then looks; on the way the state was first
            // reached the observers ran around its last call (before it if it was the first call
            // tried in the parent state, and always between the call and the key).  If one of those
            // two orders reproduces the recorded key, both systems are deterministic but an observer
            // call changes what a later call or observer reports - a finding about the code under
            // test (it does not happen on the unchanged tree).  Anything else is a harness defect.
            if let Some((last, init)) = st.hist.split_last() {
                for look_first in [false, true] {
                    let (a, b) = self.rebuild(init);
                    if look_first {
                        let _ = self.key(a.as_ref(), b.as_ref());
                        let _ = a.observe(probes);
                        if let PairMode::AltTwin { p } = &self.mode {
                            let _ = a.outside(p);
                        }
                    }
                    let _ = a.apply(last);
                    let _ = b.apply(last);
                    let _ = a.observe(probes);
                    let _ = b.observe(probes);
                    if self.key(a.as_ref(), b.as_ref()) ^ (tag as u128) == st.key {
                        let sig = format!("{}|{}|what-is-reported-depends-on-earlier-observer-calls", self.label, last.name());
                        *e.vio_counts.entry(sig.clone()).or_insert(0) += 1;
                        e.violations.push(Violation {
                            property: self.property.clone(),
                            signature: sig,
                            summary: format!("history {:?}: the joint state seen after it depends on whether and when the observers (exists, metadata, read_dir, open+read, walk) were called around its last call: on one of the two systems an observer call changes what later calls report", st.hist.iter().map(|o| o.show()).collect::<Vec<_>>()),
                            replay: self.replay(&st.hist, None, json!({"note": "replay the history once back to back and once with the observers called around the last call; compare what the observers report afterwards"})),
                        });
                        return e;
                    }
                }
            }
            eprintln!("MACHINERY: nondeterministic replay in pair {} (history {:?})", self.label, st.hist.iter().map(|o| o.show()).collect::<Vec<_>>());
            std::process::exit(2);
        }
        let before = a0.observe(probes);
        let outside_before = match &self.mode {
            PairMode::AltTwin { p } => a0.outside(p),
            _ => vec![],
        };
        for op in &self.ops {
            if !self.op_enabled(op, &before) {
                continue;
            }
            let (a, b) = match sys.take() {
                Some(x) => x,
                None => self.rebuild(&st.hist),
            };
            let (oa, log_a) = a.apply(op);
            let (ob, _) = b.apply(op);
            let sa = a.observe(probes);
            let sb = b.observe(probes);
            e.transitions += 1;
            let vs = self.compare(
                op,
                &before,
                &oa,
                &ob,
                &sa,
                &sb,
                &log_a,
                &outside_before,
                a.as_ref(),
                b.as_ref(),
            );
            let diverged = !vs.is_empty();
            for (sig, summary) in vs {
                *e.vio_counts.entry(sig.clone()).or_insert(0) += 1;
                if self.want_full(&sig) {
                    e.violations.push(Violation {
                        property: self.property.clone(),
                        signature: sig,
                        summary,
                        replay: self.replay(&st.hist, Some(op), json!({"first": oa.short(), "second": ob.short(), "first_after": sa.dump(), "second_after": sb.dump()})),
                    });
                }
            }
            let base_key = self.key(a.as_ref(), b.as_ref());
            let mut key = base_key ^ (tag as u128);
            let mut next_tag = tag;
            if self.alphabet.residue && tag == 0 && key == st.key && oa.is_err() {
                let mut h = std::collections::hash_map::DefaultHasher::new();
                // (the call and the state it was refused in)
                ("refused", op.show(), st.key).hash(&mut h);
                next_tag = h.finish() | 1;
                key = base_key ^ (next_tag as u128);
                *e.counters
                    .entry("residue:states-after-a-refused-call".into())
                    .or_insert(0) += 1;
            }
            *e.counters
                .entry(format!("{}:{}", op.name(), oa.class()))
                .or_insert(0) += 1;
            let tc = tclass(&before, op.path());
            if key != st.key || (oa.is_err() && !tc.starts_with("absent-")) {
                let mut h = std::collections::hash_map::DefaultHasher::new();
                (tc.as_str(), op.show(), oa.class()).hash(&mut h);
                e.nontrivial.push(h.finish());
            }
            e.succ.push(Succ {
                op: op.clone(),
                key,
                aux: if diverged { None } else { Some(PAux(next_tag)) },
            });
        }
        e
    }
}
