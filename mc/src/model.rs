//! The reference model: an abstract tree of directories and byte files (boring on purpose).

use crate::api::{FType, Kind};
use crate::ops::*;
use std::collections::BTreeMap;

#[derive(Clone, Debug, PartialEq, Eq, Hash, PartialOrd, Ord)]
pub enum Node {
    Dir,
    File(Vec<u8>),
}

#[derive(Clone, Debug, PartialEq, Eq, Hash, PartialOrd, Ord)]
pub struct Model {
    /// canonical path -> node; the root "" is always a Dir
    pub t: BTreeMap<String, Node>,
}

/// What the property text lets us demand of one call.
#[derive(Clone, Debug, PartialEq)]
pub enum Expect {
    /// must succeed, model advanced, optional return value (copy_dir count)
    Ok(Option<u64>),
    /// must fail; `unchanged`: the tree must be unchanged; `kinds`: if non-empty the error
    /// kind must be one of these
    Err { unchanged: bool, kinds: Vec<Kind> },
}

impl Default for Model {
    fn default() -> Self {
        Model::new()
    }
}

impl Model {
    pub fn new() -> Model {
        let mut t = BTreeMap::new();
        t.insert("".to_string(), Node::Dir);
        Model { t }
    }
    pub fn get(&self, p: &str) -> Option<&Node> {
        self.t.get(p)
    }
    pub fn is_dir(&self, p: &str) -> bool {
        matches!(self.t.get(p), Some(Node::Dir))
    }
    pub fn is_file(&self, p: &str) -> bool {
        matches!(self.t.get(p), Some(Node::File(_)))
    }
    pub fn exists(&self, p: &str) -> bool {
        self.t.contains_key(p)
    }
    pub fn children(&self, p: &str) -> Vec<String> {
        let pre = format!("{}/", p);
        self.t
            .keys()
            .filter(|k| k.starts_with(&pre) && !k[pre.len()..].contains('/'))
            .cloned()
            .collect()
    }
    /// strict descendants, parents before children (BTreeMap order guarantees prefix first)
    pub fn descendants(&self, p: &str) -> Vec<String> {
        let pre = format!("{}/", p);
        self.t
            .keys()
            .filter(|k| k.starts_with(&pre))
            .cloned()
            .collect()
    }
    pub fn well_formed(&self) -> bool {
        self.is_dir("")
            && self
                .t
                .keys()
                .all(|k| k.is_empty() || self.is_dir(&parent_of(k)))
    }
    pub fn insert_tree(&mut self, entries: &[(String, Node)]) {
        for (p, n) in entries {
            self.t.insert(p.clone(), n.clone());
        }
    }

    /// Is the call inside the domain for which C01 specifies an outcome?
    pub fn in_typed_domain(&self, op: &Op) -> bool {
        let p = op.path();
        match op {
            Op::CreateFile(..)
            | Op::Append(..)
            | Op::RemoveFile(_)
            | Op::RemoveDir(_)
            | Op::RemoveDirAll(_)
                if p.is_empty() =>
            {
                false
            }
            Op::MoveFile(..) | Op::MoveDir(..) if p.is_empty() => false,
            Op::CopyFile(..) | Op::MoveFile(..) => !self.is_dir(p),
            Op::CopyDir(_, q) | Op::MoveDir(_, q) => !self.is_file(p) && !is_within(q, p),
            _ => true,
        }
    }

    /// Outcome the property text prescribes, and the successor model.
    pub fn step(&self, op: &Op) -> (Expect, Model) {
        let mut m = self.clone();
        let p = op.path().to_string();
        let parent_is_dir = |m: &Model, p: &str| !p.is_empty() && m.is_dir(&parent_of(p));
        let fail = |unchanged: bool, kinds: Vec<Kind>| Expect::Err { unchanged, kinds };
        // "a target that is missing from an existing directory is reported as not-found"
        let missing_kind = |m: &Model, p: &str| {
            if !p.is_empty() && !m.exists(p) && m.is_dir(&parent_of(p)) {
                vec![Kind::NotFound]
            } else {
                vec![]
            }
        };
        let e = match op {
            Op::CreateDir(_) => {
                if p.is_empty() {
                    // the root is an occupied path
                    fail(true, vec![Kind::DirExists])
                } else if !parent_is_dir(&m, &p) {
                    fail(true, vec![])
                } else {
                    match m.get(&p) {
                        Some(Node::Dir) => fail(true, vec![Kind::DirExists]),
                        Some(Node::File(_)) => fail(true, vec![Kind::FileExists]),
                        None => {
                            m.t.insert(p.clone(), Node::Dir);
                            Expect::Ok(None)
                        }
                    }
                }
            }
            Op::CreateFile(_, w) => {
                if p.is_empty() || !parent_is_dir(&m, &p) || m.is_dir(&p) {
                    fail(true, vec![])
                } else {
                    m.t.insert(p.clone(), Node::File(w.clone()));
                    Expect::Ok(None)
                }
            }
            Op::Append(_, w) => match m.get(&p).cloned() {
                Some(Node::File(old)) => {
                    let mut n = old;
                    n.extend_from_slice(w);
                    m.t.insert(p.clone(), Node::File(n));
                    Expect::Ok(None)
                }
                _ => fail(true, missing_kind(&m, &p)),
            },
            Op::RemoveFile(_) => {
                if m.is_file(&p) {
                    m.t.remove(&p);
                    Expect::Ok(None)
                } else {
                    fail(true, missing_kind(&m, &p))
                }
            }
            Op::RemoveDir(_) => {
                if !p.is_empty() && m.is_dir(&p) && m.children(&p).is_empty() {
                    m.t.remove(&p);
                    Expect::Ok(None)
                } else {
                    fail(true, missing_kind(&m, &p))
                }
            }
            Op::CreateDirAll(_) => {
                // fails iff some prefix (incl. p) is a file; in a well-formed tree nothing
                // can have been created before the failing prefix, so the tree is unchanged
                let mut prefixes = vec![];
                let mut cur = p.clone();
                while !cur.is_empty() {
                    prefixes.push(cur.clone());
                    cur = parent_of(&cur);
                }
                prefixes.reverse();
                if prefixes.iter().any(|x| m.is_file(x)) {
                    fail(true, vec![])
                } else {
                    for x in prefixes {
                        m.t.insert(x, Node::Dir);
                    }
                    Expect::Ok(None)
                }
            }
            Op::RemoveDirAll(_) => {
                if !m.exists(&p) {
                    Expect::Ok(None)
                } else if m.is_dir(&p) && !p.is_empty() {
                    for d in m.descendants(&p) {
                        m.t.remove(&d);
                    }
                    m.t.remove(&p);
                    Expect::Ok(None)
                } else {
                    // a file: an error; root: outside the domain
                    fail(true, vec![])
                }
            }
            Op::CopyFile(_, q) | Op::MoveFile(_, q) => {
                let is_move = matches!(op, Op::MoveFile(..));
                if m.exists(q) {
                    fail(true, vec![]) // existing destination: refused without side effects
                } else if let (Some(Node::File(b)), true) =
                    (m.get(&p).cloned(), parent_is_dir(&m, q))
                {
                    m.t.insert(q.clone(), Node::File(b));
                    if is_move {
                        m.t.remove(&p);
                    }
                    Expect::Ok(None)
                } else {
                    // missing source / missing destination parent: an error; the property does
                    // not promise anything about side effects here
                    fail(false, vec![])
                }
            }
            Op::CopyDir(_, q) | Op::MoveDir(_, q) => {
                let is_move = matches!(op, Op::MoveDir(..));
                if m.exists(q) {
                    fail(true, vec![])
                } else if m.is_dir(&p) && parent_is_dir(&m, q) && !is_within(q, &p) {
                    let desc = m.descendants(&p);
                    m.t.insert(q.clone(), Node::Dir);
                    for d in &desc {
                        let n = m.t.get(d).unwrap().clone();
                        m.t.insert(format!("{}{}", q, &d[p.len()..]), n);
                    }
                    if is_move {
                        for d in &desc {
                            m.t.remove(d);
                        }
                        m.t.remove(&p);
                    }
                    Expect::Ok(if is_move {
                        None
                    } else {
                        Some(desc.len() as u64)
                    })
                } else {
                    fail(false, vec![])
                }
            }
            _ => panic!("observer ops have no model step"),
        };
        if matches!(e, Expect::Err { .. }) {
            return (e, self.clone());
        }
        (e, m)
    }

    // ---- expected observations -------------------------------------------------------

    pub fn obs_exists(&self, p: &str) -> bool {
        self.exists(p)
    }
    pub fn obs_meta(&self, p: &str) -> Option<(FType, u64)> {
        match self.get(p) {
            Some(Node::Dir) => Some((FType::Dir, 0)),
            Some(Node::File(b)) => Some((FType::File, b.len() as u64)),
            None => None,
        }
    }
    /// every descendant of p
    pub fn obs_walk(&self, p: &str) -> Vec<String> {
        self.descendants(p)
    }

    /// Union view of overlay layers: first layer wins for files, directories merge.
    /// Returns None if the layering is not type-consistent.
    pub fn union_of(layers: &[Vec<(String, Node)>]) -> Option<Model> {
        let mut m = Model::new();
        for layer in layers {
            for (p, n) in layer {
                match (m.t.get(p), n) {
                    (None, _) => {
                        m.t.insert(p.clone(), n.clone());
                    }
                    (Some(Node::Dir), Node::Dir) => {}
                    (Some(Node::File(_)), Node::File(_)) => {} // first layer wins
                    _ => return None,
                }
            }
        }
        if !m.well_formed() {
            return None;
        }
        Some(m)
    }

    /// The union for layerings in which a path may be a directory in one layer and a file in
    /// another: the first layer that has the path decides its type ("a file is served from the
    /// first layer that has it"), a directory merges the children of *all* layers in which it is
    /// a directory.  Admissible only if no entry of any layer lies below a path that is a file in
    /// the union (what such an entry means is not specified).
    pub fn union_of_ext(layers: &[Vec<(String, Node)>]) -> Option<Model> {
        let mut m = Model::new();
        for layer in layers {
            for (p, n) in layer {
                if m.t.get(p).is_none() {
                    m.t.insert(p.clone(), n.clone());
                }
            }
        }
        if !m.well_formed() {
            return None;
        }
        Some(m)
    }

    /// Abstraction of an observed snapshot (used to resynchronise after calls whose failure
    /// effects the property leaves open).
    pub fn from_entries(entries: impl Iterator<Item = (String, Node)>) -> Model {
        let mut m = Model::new();
        for (p, n) in entries {
            m.t.insert(p, n);
        }
        m
    }
}
