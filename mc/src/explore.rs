//! Explicit-state breadth-first explorer (level synchronous, parallel, deterministic).
//! A state is the shortest operation history that reaches it; live systems are rebuilt by
//! replaying the history against fresh instances of the real code.

use crate::ops::Op;
use crate::report::Violation;
use rayon::prelude::*;
use std::collections::{BTreeMap, HashSet};
use std::hash::{Hash, Hasher};
use std::sync::Arc;
use std::time::{Duration, Instant};

pub fn hash128(bytes: &[u8]) -> u128 {
    let mut h1 = std::collections::hash_map::DefaultHasher::new();
    bytes.hash(&mut h1);
    let mut h2 = std::collections::hash_map::DefaultHasher::new();
    0xA5A5_5A5A_u32.hash(&mut h2);
    bytes.hash(&mut h2);
    bytes.len().hash(&mut h2);
    ((h1.finish() as u128) << 64) | h2.finish() as u128
}

#[derive(Clone)]
pub struct State<A> {
    pub init: usize,
    pub hist: Arc<Vec<Op>>,
    pub aux: A,
    pub key: u128,
}

pub struct Succ<A> {
    pub op: Op,
    pub key: u128,
    /// None: do not expand (model diverged on a reported violation)
    pub aux: Option<A>,
}

pub struct Expansion<A> {
    pub transitions: u64,
    pub succ: Vec<Succ<A>>,
    pub violations: Vec<Violation>,
    /// number of violations per signature (all of them, not only the materialised ones)
    pub vio_counts: BTreeMap<String, u64>,
    /// free-form counters merged into the run statistics (outcome histogram, non-vacuity)
    pub counters: BTreeMap<String, u64>,
    /// distinct (state-class, call, outcome-class) triples, see evidence `distinct_nontrivial`
    pub nontrivial: Vec<u64>,
}

impl<A> Default for Expansion<A> {
    fn default() -> Self {
        Expansion {
            transitions: 0,
            succ: vec![],
            violations: vec![],
            vio_counts: BTreeMap::new(),
            counters: BTreeMap::new(),
            nontrivial: vec![],
        }
    }
}

pub trait Space: Sync {
    type Aux: Clone + Send + Sync;
    fn label(&self) -> String;
    /// initial states: (aux, key) per init index
    fn initial(&self) -> Vec<(Self::Aux, u128, Vec<Violation>)>;
    fn expand(&self, st: &State<Self::Aux>) -> Expansion<Self::Aux>;
}

#[derive(Default, Clone, Debug)]
pub struct Stats {
    pub label: String,
    pub states: u64,
    pub transitions: u64,
    pub max_depth: usize,
    pub fixpoint: bool,
    pub capped: Option<String>,
    pub pruned_successors: u64,
    pub counters: BTreeMap<String, u64>,
    pub vio_counts: BTreeMap<String, u64>,
    pub nontrivial: u64,
    pub wall_s: f64,
    pub samples: Vec<Vec<String>>,
}

pub struct Limits {
    pub wall: Duration,
    pub max_states: u64,
    pub max_depth: usize,
}

pub fn bfs<S: Space>(space: &S, limits: &Limits) -> (Stats, Vec<Violation>) {
    let t0 = Instant::now();
    let mut stats = Stats {
        label: space.label(),
        ..Default::default()
    };
    let mut violations = vec![];
    let mut seen: HashSet<u128> = HashSet::new();
    let mut nontrivial: HashSet<u64> = HashSet::new();
    let mut frontier: Vec<State<S::Aux>> = vec![];
    for (i, (aux, key, v)) in space.initial().into_iter().enumerate() {
        violations.extend(v);
        if seen.insert(key) {
            frontier.push(State {
                init: i,
                hist: Arc::new(vec![]),
                aux,
                key,
            });
        }
    }
    stats.states = frontier.len() as u64;
    let mut depth = 0usize;
    let mut longest: Option<(usize, Vec<Op>)> = None;
    let mut first_samples: Vec<Vec<String>> = vec![];
    while !frontier.is_empty() {
        if depth >= limits.max_depth {
            stats.capped = Some(format!(
                "depth cap {} reached with {} unexpanded states",
                limits.max_depth,
                frontier.len()
            ));
            break;
        }
        // expand in chunks so that a wall-clock cap can stop between chunks
        let mut next: Vec<State<S::Aux>> = vec![];
        let mut capped = false;
        for chunk in frontier.chunks(4096) {
            if t0.elapsed() > limits.wall {
                capped = true;
                break;
            }
            let exps: Vec<Expansion<S::Aux>> =
                chunk.par_iter().map(|st| space.expand(st)).collect();
            for (st, e) in chunk.iter().zip(exps.into_iter()) {
                stats.transitions += e.transitions;
                violations.extend(e.violations);
                for (k, v) in e.counters {
                    *stats.counters.entry(k).or_insert(0) += v;
                }
                for (k, v) in e.vio_counts {
                    *stats.vio_counts.entry(k).or_insert(0) += v;
                }
                nontrivial.extend(e.nontrivial);
                for s in e.succ {
                    if seen.contains(&s.key) {
                        continue;
                    }
                    match s.aux {
                        None => {
                            stats.pruned_successors += 1;
                        }
                        Some(aux) => {
                            seen.insert(s.key);
                            let mut h = (*st.hist).clone();
                            h.push(s.op);
                            if first_samples.len() < 3 {
                                first_samples.push(h.iter().map(|o| o.show()).collect());
                            }
                            if longest.as_ref().map(|(l, _)| h.len() > *l).unwrap_or(true) {
                                longest = Some((h.len(), h.clone()));
                            }
                            next.push(State {
                                init: st.init,
                                hist: Arc::new(h),
                                aux,
                                key: s.key,
                            });
                        }
                    }
                }
            }
            if seen.len() as u64 > limits.max_states {
                capped = true;
                break;
            }
        }
        if capped {
            stats.capped = Some(format!(
                "cap hit (wall {:?} / max states {}) while expanding BFS depth {}; depths < {} fully expanded",
                limits.wall, limits.max_states, depth, depth
            ));
            stats.states = seen.len() as u64;
            break;
        }
        stats.states = seen.len() as u64;
        if !next.is_empty() {
            depth += 1;
        }
        frontier = next;
    }
    stats.max_depth = depth;
    stats.fixpoint = stats.capped.is_none();
    stats.nontrivial = nontrivial.len() as u64;
    stats.wall_s = t0.elapsed().as_secs_f64();
    stats.samples = first_samples;
    if let Some((_, h)) = longest {
        stats.samples.push(h.iter().map(|o| o.show()).collect());
    }
    (stats, violations)
}
