//! Cooperative scheduler: runs small multi-threaded programs against the real code with exactly
//! one thread running at a time, hand-off only at the yield points the `verif-hooks` feature
//! places before every MemoryFS lock acquisition (and at entry of PhysicalFS::create_dir), and
//! enumerates schedules depth-first with visited-state pruning and an optional preemption bound.

use std::cell::RefCell;
use std::collections::HashMap;
use std::hash::{Hash, Hasher};
use std::panic::{catch_unwind, AssertUnwindSafe};
use std::sync::{Arc, Condvar, Mutex};
use std::time::Duration;

#[derive(Clone, Copy, PartialEq, Debug)]
enum Status {
    Parked,
    Running,
    Finished,
}

struct St {
    turn: Option<usize>,
    status: Vec<Status>,
    /// number of yield points passed per thread, and the label it is parked at
    pc: Vec<usize>,
    label: Vec<&'static str>,
    panicked: Vec<Option<String>>,
    /// /proc stat file of each program thread (filled in by the thread itself)
    stat: Vec<String>,
}

pub struct Shared {
    m: Mutex<St>,
    cv: Condvar,
}

thread_local! {
    static CUR: RefCell<Option<(Arc<Shared>, usize)>> = const { RefCell::new(None) };
}

/// Installs the process-wide hook (idempotent).  Threads that are not managed by a scheduler
/// (the controller, snapshots, other engines) pass through yield points without effect.
pub fn install_hook() {
    static ONCE: std::sync::Once = std::sync::Once::new();
    ONCE.call_once(|| {
        vfs::verif_hooks::install(Arc::new(|label: &'static str| {
            let cur = CUR.with(|c| c.borrow().clone());
            if let Some((sh, i)) = cur {
                sh.yield_now(i, label);
            }
        }));
    });
}

impl Shared {
    fn yield_now(&self, i: usize, label: &'static str) {
        let mut st = self.m.lock().unwrap();
        st.status[i] = Status::Parked;
        st.pc[i] += 1;
        st.label[i] = label;
        st.turn = None;
        self.cv.notify_all();
        while st.turn != Some(i) {
            st = self.cv.wait(st).unwrap();
        }
        st.status[i] = Status::Running;
    }
    fn wait_first_turn(&self, i: usize) {
        let mut st = self.m.lock().unwrap();
        while st.turn != Some(i) {
            st = self.cv.wait(st).unwrap();
        }
        st.status[i] = Status::Running;
    }
    fn finish(&self, i: usize, panic: Option<String>) {
        let mut st = self.m.lock().unwrap();
        st.status[i] = Status::Finished;
        st.panicked[i] = panic;
        st.turn = None;
        self.cv.notify_all();
    }
}

pub static DEADLOCK_PROPERTY: Mutex<String> = Mutex::new(String::new());

/// Controllers that are reading the shared state right now (thread -> since when, what for).
/// The controller itself takes the filesystem's lock for that; if a parked thread holds the lock
/// across a yield point (e.g. a nested acquisition) the controller would block for ever, so a
/// monitor thread watches this table.
static OBSERVING: Mutex<Option<HashMap<std::thread::ThreadId, Watched>>> = Mutex::new(None);

struct Watched {
    since: std::time::Instant,
    what: String,
    /// /proc/<pid>/task/<tid>/stat of the watched thread
    stat: String,
    last_ticks: Option<u64>,
    /// consecutive samples in which the thread slept and used no CPU at all
    blocked_samples: u32,
}

/// `/proc/<pid>/task/<tid>/stat` of the calling thread.
fn own_stat_path() -> String {
    match std::fs::read_link("/proc/thread-self") {
        Ok(p) => format!("/proc/{}/stat", p.display()),
        Err(_) => String::new(),
    }
}

/// (scheduler state, CPU ticks used so far) of a thread.  A thread that waits for a lock sleeps
/// ('S') and uses no CPU; a thread that is merely slow because the machine is busy is runnable
/// ('R') or makes progress between two samples.
fn thread_stat(path: &str) -> Option<(char, u64)> {
    let text = std::fs::read_to_string(path).ok()?;
    let rest = &text[text.rfind(')')? + 1..];
    let f: Vec<&str> = rest.split_whitespace().collect();
    let state = f.first()?.chars().next()?;
    let ticks = f.get(11)?.parse::<u64>().ok()? + f.get(12)?.parse::<u64>().ok()?;
    Some((state, ticks))
}

/// One more sample of a watched thread: true once it has slept without using any CPU for
/// `need` consecutive samples (it is blocked, not slow).  Without /proc every sample counts.
fn sample_blocked(stat: &str, last_ticks: &mut Option<u64>, blocked_samples: &mut u32, need: u32) -> bool {
    match thread_stat(stat) {
        Some((state, ticks)) => {
            if state == 'S' && *last_ticks == Some(ticks) {
                *blocked_samples += 1;
            } else {
                *blocked_samples = 0;
            }
            *last_ticks = Some(ticks);
        }
        None => *blocked_samples += 1,
    }
    *blocked_samples >= need
}

fn observing<T>(what: impl FnOnce() -> String, f: impl FnOnce() -> T) -> T {
    let id = std::thread::current().id();
    OBSERVING.lock().unwrap().get_or_insert_with(HashMap::new).insert(
        id,
        Watched {
            since: std::time::Instant::now(),
            what: what(),
            stat: own_stat_path(),
            last_ticks: None,
            blocked_samples: 0,
        },
    );
    let r = f();
    OBSERVING.lock().unwrap().as_mut().unwrap().remove(&id);
    r
}

fn report_deadlock(summary: &str, program: &str, schedule: Vec<usize>) -> ! {
    let prop = DEADLOCK_PROPERTY.lock().unwrap().clone();
    let _ = std::fs::create_dir_all("/verif/replays");
    let path = format!("/verif/replays/{}-deadlock.json", prop);
    let body = serde_json::json!({
        "engine": "sched",
        "summary": summary,
        "program": program,
        "schedule_so_far": schedule,
    });
    let _ = std::fs::write(&path, serde_json::to_string_pretty(&body).unwrap());
    println!("VIOLATION property={} replay={}", prop, path);
    println!("  signature: deadlock");
    std::process::exit(1);
}

fn start_monitor() {
    static ONCE: std::sync::Once = std::sync::Once::new();
    ONCE.call_once(|| {
        std::thread::spawn(|| loop {
            std::thread::sleep(Duration::from_secs(1));
            // a controller that has been at it for 10 s AND has slept without using any CPU for the
            // last 8 samples is blocked; one that is merely slow on a busy machine is left alone
            let mut stuck = None;
            if let Some(m) = OBSERVING.lock().unwrap().as_mut() {
                for w in m.values_mut() {
                    if w.since.elapsed() >= Duration::from_secs(2) {
                        let blocked = sample_blocked(&w.stat, &mut w.last_ticks, &mut w.blocked_samples, 8);
                        if blocked && w.since.elapsed() >= Duration::from_secs(10) {
                            stuck = Some(w.what.clone());
                        }
                    }
                }
            }
            if let Some(w) = stuck {
                report_deadlock(
                    "the scheduler could not read the shared filesystem state (blocked for 10 s without using any CPU) while every thread was parked at a yield point: a thread holds the filesystem lock across a yield point (e.g. it acquires the lock again while holding it), so any writer that arrives in between deadlocks with it",
                    &w,
                    vec![],
                );
            }
        });
    });
}

/// A concurrent program over one fresh system.
pub trait Program: Sync {
    fn describe(&self) -> String;
    type Sys: Sync;
    /// per-thread observable record (results of completed calls)
    type Rec: Clone + Send + PartialEq + std::fmt::Debug + Hash;
    fn threads(&self) -> usize;
    fn setup(&self) -> Self::Sys;
    /// Runs thread i to completion; pushes one record per completed call.
    fn run_thread(&self, sys: &Self::Sys, i: usize, rec: &Mutex<Vec<Self::Rec>>);
    /// Hash of the shared state (raw filesystem snapshot) while all threads are parked.
    fn state_hash(&self, sys: &Self::Sys) -> u64;
}

#[derive(Clone, Debug)]
pub struct Step {
    pub enabled: Vec<usize>,
    pub chosen: usize,
    pub state: u64,
    /// label the chosen thread was parked at ("start" before its first action)
    pub label: &'static str,
}

pub struct Execution<P: Program> {
    pub trace: Vec<Step>,
    pub records: Vec<Vec<P::Rec>>,
    pub sys: P::Sys,
    pub deadlock: bool,
    pub panics: Vec<Option<String>>,
    pub divergence: Option<String>,
}

/// Runs one schedule: `prefix` gives the first choices, afterwards the running thread continues
/// while it is enabled, else the lowest enabled thread id runs.
pub fn run_schedule<P: Program>(prog: &P, prefix: &[usize]) -> Execution<P> {
    install_hook();
    start_monitor();
    let n = prog.threads();
    let sys = prog.setup();
    let shared = Arc::new(Shared {
        m: Mutex::new(St {
            turn: None,
            status: vec![Status::Parked; n],
            pc: vec![0; n],
            label: vec!["start"; n],
            panicked: vec![None; n],
            stat: vec![String::new(); n],
        }),
        cv: Condvar::new(),
    });
    let recs: Vec<Mutex<Vec<P::Rec>>> = (0..n).map(|_| Mutex::new(vec![])).collect();
    let mut trace: Vec<Step> = vec![];
    let mut deadlock = false;
    let mut divergence = None;
    std::thread::scope(|scope| {
        for i in 0..n {
            let sh = shared.clone();
            let sys_ref = &sys;
            let rec = &recs[i];
            scope.spawn(move || {
                CUR.with(|c| *c.borrow_mut() = Some((sh.clone(), i)));
                sh.m.lock().unwrap().stat[i] = own_stat_path();
                sh.wait_first_turn(i);
                let r = catch_unwind(AssertUnwindSafe(|| prog.run_thread(sys_ref, i, rec)));
                CUR.with(|c| *c.borrow_mut() = None);
                let panic = r.err().map(|e| {
                    if let Some(s) = e.downcast_ref::<&str>() {
                        s.to_string()
                    } else if let Some(s) = e.downcast_ref::<String>() {
                        s.clone()
                    } else {
                        "<panic>".to_string()
                    }
                });
                sh.finish(i, panic);
            });
        }
        let mut last: Option<usize> = None;
        loop {
            // wait until nobody runs
            let (enabled, pcs, labels) = {
                let mut st = shared.m.lock().unwrap();
                let mut waited = Duration::ZERO;
                let (mut last_ticks, mut blocked_samples) = (None, 0u32);
                while st.turn.is_some() {
                    let (g, to) = shared
                        .cv
                        .wait_timeout(st, Duration::from_millis(500))
                        .unwrap();
                    st = g;
                    if to.timed_out() {
                        waited += Duration::from_millis(500);
                        // blocked = the running thread has slept without using any CPU for the last 8 s
                        // (a thread that is slow because the machine is busy is runnable or progresses)
                        let blocked = match st.turn {
                            Some(t) if waited >= Duration::from_secs(2) => {
                                let path = st.stat[t].clone();
                                sample_blocked(&path, &mut last_ticks, &mut blocked_samples, 16)
                            }
                            _ => false,
                        };
                        if waited >= Duration::from_secs(10) && blocked {
                            deadlock = true;
                            break;
                        }
                    }
                }
                let en: Vec<usize> = (0..n)
                    .filter(|i| st.status[*i] != Status::Finished)
                    .collect();
                (en, st.pc.clone(), st.label.clone())
            };
            if deadlock {
                // a blocked OS thread cannot be joined or killed: report and leave the process
                report_deadlock(
                    "a thread neither finished nor reached a yield point and has been blocked (asleep, no CPU used) for 10 s: deadlock, or a lock held across a yield point",
                    &prog.describe(),
                    trace.iter().map(|s| s.chosen).collect::<Vec<_>>(),
                );
            }
            if enabled.is_empty() {
                break;
            }
            // state = shared filesystem state + per-thread program counters, labels and records
            let mut h = std::collections::hash_map::DefaultHasher::new();
            observing(
                || {
                    format!(
                        "{} after schedule {:?}, threads parked at {:?}",
                        prog.describe(),
                        trace.iter().map(|s| s.chosen).collect::<Vec<_>>(),
                        labels
                    )
                },
                || prog.state_hash(&sys),
            )
            .hash(&mut h);
            pcs.hash(&mut h);
            labels.hash(&mut h);
            for r in &recs {
                r.lock().unwrap().hash(&mut h);
            }
            let state = h.finish();
            let k = trace.len();
            let chosen = if k < prefix.len() {
                if !enabled.contains(&prefix[k]) {
                    divergence = Some(format!(
                        "schedule prefix asks for thread {} at step {} but enabled = {:?}",
                        prefix[k], k, enabled
                    ));
                    enabled[0]
                } else {
                    prefix[k]
                }
            } else {
                match last {
                    Some(l) if enabled.contains(&l) => l,
                    _ => enabled[0],
                }
            };
            trace.push(Step {
                enabled: enabled.clone(),
                chosen,
                state,
                label: labels[chosen],
            });
            last = Some(chosen);
            let mut st = shared.m.lock().unwrap();
            st.turn = Some(chosen);
            shared.cv.notify_all();
        }
    });
    let panics = shared.m.lock().unwrap().panicked.clone();
    Execution {
        trace,
        records: recs.into_iter().map(|m| m.into_inner().unwrap()).collect(),
        sys,
        deadlock,
        panics,
        divergence,
    }
}

#[derive(Default, Debug, Clone)]
pub struct ExploreStats {
    pub executions: u64,
    pub scheduling_points: u64,
    pub distinct_states: u64,
    pub max_preemptions_used: usize,
    /// true if every schedule was covered (no preemption bound cut anything, no cap hit)
    pub complete: bool,
    pub bound: Option<usize>,
    pub capped: bool,
}

/// Depth-first enumeration of schedules with visited-state pruning.  `check` is called for
/// every complete execution.  `bound`: maximal number of preemptions (None = unbounded).
pub fn explore<P: Program>(
    prog: &P,
    bound: Option<usize>,
    max_execs: u64,
    mut check: impl FnMut(&Execution<P>, &[usize]),
) -> ExploreStats {
    let mut stats = ExploreStats {
        complete: true,
        bound,
        ..Default::default()
    };
    // state -> least number of preemptions with which it was expanded
    let mut visited: HashMap<u64, usize> = HashMap::new();
    let mut stack: Vec<Vec<usize>> = vec![vec![]];
    while let Some(prefix) = stack.pop() {
        if stats.executions >= max_execs {
            stats.capped = true;
            stats.complete = false;
            break;
        }
        let ex = run_schedule(prog, &prefix);
        stats.executions += 1;
        stats.scheduling_points += ex.trace.len() as u64;
        if let Some(d) = &ex.divergence {
            eprintln!(
                "MACHINERY: nondeterministic replay of a schedule prefix: {}",
                d
            );
            std::process::exit(2);
        }
        let choices: Vec<usize> = ex.trace.iter().map(|s| s.chosen).collect();
        check(&ex, &choices);
        // preemptions used before each step
        let mut used = vec![0usize; ex.trace.len() + 1];
        for i in 0..ex.trace.len() {
            let pre = i > 0
                && ex.trace[i].chosen != ex.trace[i - 1].chosen
                && ex.trace[i].enabled.contains(&ex.trace[i - 1].chosen);
            used[i + 1] = used[i] + pre as usize;
        }
        stats.max_preemptions_used = stats.max_preemptions_used.max(used[ex.trace.len()]);
        for i in prefix.len()..ex.trace.len() {
            let st = &ex.trace[i];
            match visited.get(&st.state) {
                Some(p) if *p <= used[i] => break, // expanded before with at least as much budget left
                _ => {
                    visited.insert(st.state, used[i]);
                }
            }
            for alt in &st.enabled {
                if *alt == st.chosen {
                    continue;
                }
                let pre = i > 0
                    && st.enabled.contains(&ex.trace[i - 1].chosen)
                    && *alt != ex.trace[i - 1].chosen;
                let cost = used[i] + pre as usize;
                if let Some(b) = bound {
                    if cost > b {
                        stats.complete = false;
                        continue;
                    }
                }
                let mut p: Vec<usize> = choices[..i].to_vec();
                p.push(*alt);
                stack.push(p);
            }
        }
    }
    stats.distinct_states = visited.len() as u64;
    stats
}
