//! Single-system state space with pluggable monitors (C01, C03, C05, C08, C09, C10, C12, C13).

use crate::api::*;
use crate::config::*;
use crate::explore::*;
use crate::model::*;
use crate::ops::*;
use crate::report::Violation;
use crate::snapshot::*;
use serde_json::{json, Value};
use std::collections::{BTreeMap, BTreeSet};
use std::hash::{Hash, Hasher};

#[derive(Clone, Debug, PartialEq)]
pub enum Domain {
    /// the calls for which C01 specifies an outcome
    Typed,
    /// every call on every path; `root_removal`: also calls that remove / move away the root
    Unrestricted { root_removal: bool },
}

#[derive(Clone, Debug, Default)]
pub struct Monitors {
    pub model: bool,
    /// with `model`: only report error-kind mismatches (C12); other divergences just stop expansion
    pub model_only_kinds: bool,
    pub wellformed: bool,
    pub consistency: bool,
    pub errpaths: bool,
    pub panics: bool,
    pub lower_immutable: bool,
    pub markers_hidden: bool,
    /// C20: for every call, fail every single underlying call position (and pairs if > 1)
    pub faults: u8,
}

#[derive(Clone, Debug)]
pub struct InitSpec {
    pub label: String,
    pub init: Init,
    /// model of the initial state (None: derive from the first snapshot)
    pub model: Option<Model>,
}

#[derive(Clone)]
pub struct TAux {
    pub model: Option<Model>,
    /// non-zero: the history contains one refused call that changed nothing observable (hash of
    /// the call; part of the state key)
    pub tag: u64,
}

pub struct TreeSpace {
    pub property: String,
    pub cfg: Cfg,
    pub order: Order,
    pub alphabet: Alphabet,
    pub domain: Domain,
    pub inits: Vec<InitSpec>,
    pub mon: Monitors,
    pub ops: Vec<Op>,
    pub probes: Vec<String>,
    pub sig_counts: std::sync::Mutex<std::collections::HashMap<String, usize>>,
}

pub const MARKER_PROBES: [&str; 3] = ["/.whiteout", "/.whiteout/a_wo", "/a_wo"];

impl TreeSpace {
    pub fn new(
        property: &str,
        cfg: Cfg,
        order: Order,
        alphabet: Alphabet,
        domain: Domain,
        inits: Vec<InitSpec>,
        mon: Monitors,
    ) -> TreeSpace {
        let ops = alphabet.all_ops();
        let mut probes = alphabet.universe.paths.clone();
        if cfg.has_overlay() {
            probes.extend(MARKER_PROBES.iter().map(|s| s.to_string()));
        }
        TreeSpace {
            property: property.to_string(),
            cfg,
            order,
            alphabet,
            domain,
            inits,
            mon,
            ops,
            probes,
            sig_counts: Default::default(),
        }
    }

    /// Only the first few violations per signature are materialised with a replay body.
    fn want_full(&self, sig: &str) -> bool {
        let mut m = self.sig_counts.lock().unwrap();
        let c = m.entry(sig.to_string()).or_insert(0);
        *c += 1;
        *c <= 2
    }

    pub fn rebuild(&self, init: usize, hist: &[Op]) -> Built {
        let b = build(&self.cfg, self.order, &self.inits[init].init);
        for op in hist {
            let _ = apply_sess(&b, op);
        }
        b
    }

    fn base_probes(&self, base: &Base) -> Vec<String> {
        let mut v = vec![];
        for u in self.alphabet.universe.with_root() {
            v.push(format!("{}{}", base.prefix, u));
            if base.upper {
                v.push(format!("{}/.whiteout{}", base.prefix, u));
                v.push(format!("{}/.whiteout{}_wo", base.prefix, u));
            }
        }
        v
    }

    pub fn raw_snaps(&self, b: &Built) -> Vec<Snap> {
        b.bases
            .iter()
            .map(|base| snapshot(&base.raw, &self.base_probes(base)))
            .collect()
    }

    fn is_plain(&self) -> bool {
        matches!(self.cfg, Cfg::Mem | Cfg::Phys)
    }

    pub fn key_of(&self, obs: &Snap, raws: &[Snap], held: &[u8]) -> u128 {
        let mut bytes = held.to_vec();
        if self.is_plain() {
            obs.key_bytes(&mut bytes);
        } else {
            for r in raws {
                r.key_bytes(&mut bytes);
                bytes.extend_from_slice(b"|BASE|");
            }
        }
        hash128(&bytes)
    }

    fn op_enabled(&self, op: &Op, before: &Snap, model: Option<&Model>) -> bool {
        if let Op::Append(p, _) = op {
            // keep the content alphabet finite: no append once the cap is reached
            if let Some(o) = before.entries.get(p) {
                if let Ok((FType::File, len)) = o.meta {
                    if len as usize >= self.alphabet.append_cap {
                        return false;
                    }
                }
            }
        }
        if let Op::OpenWrite(p, true) = op {
            // same reason: an append session adds one or two bytes to what it finds
            if let Some(o) = before.entries.get(p) {
                if let Ok((FType::File, len)) = o.meta {
                    if len >= 2 {
                        return false;
                    }
                }
            }
        }
        // documented non-termination: copying / moving a directory into its own subtree
        if let Op::CopyDir(p, q) | Op::MoveDir(p, q) = op {
            if is_within(q, p) && p != q {
                return false;
            }
        }
        if let Op::CopyDir(p, q) | Op::MoveDir(p, q) | Op::CopyFile(p, q) | Op::MoveFile(p, q) = op
        {
            // (move_file on a directory is a rename on PhysicalFS and takes the subtree along)
            if is_within(q, p) && p != q {
                return false;
            }
            // keep the path universe closed: every entry the transfer would create must be a
            // path of the universe (otherwise repeated copies nest ever deeper)
            for d in before.existing() {
                if d.len() > p.len() && is_within(&d, p) && !p.is_empty() {
                    let target = format!("{}{}", q, &d[p.len()..]);
                    if !self.alphabet.universe.paths.contains(&target) {
                        return false;
                    }
                }
            }
        }
        match &self.domain {
            Domain::Typed => model.map(|m| m.in_typed_domain(op)).unwrap_or(true),
            Domain::Unrestricted { root_removal } => {
                if *root_removal {
                    true
                } else {
                    !(op.path().is_empty()
                        && matches!(
                            op,
                            Op::RemoveDir(_)
                                | Op::RemoveFile(_)
                                | Op::RemoveDirAll(_)
                                | Op::MoveDir(..)
                                | Op::MoveFile(..)
                        ))
                }
            }
        }
    }

    fn replay_json(&self, init: usize, hist: &[Op], op: Option<&Op>, extra: Value) -> Value {
        let spec = &self.inits[init];
        let mut v = json!({
            "engine": "tree",
            "configuration": self.cfg.label(),
            "listing_order": format!("{:?}", self.order),
            "initial_contents": spec.label,
            "initial_layers": spec.init.iter().map(|(b, es)| json!({
                "base": b,
                "entries": es.iter().map(|(p, n)| match n {
                    Node::Dir => json!({"path": p, "dir": true}),
                    Node::File(bytes) => json!({"path": p, "file": bytes}),
                }).collect::<Vec<_>>() })).collect::<Vec<_>>(),
            "history": hist.iter().map(|o| o.to_json()).collect::<Vec<_>>(),
            "history_text": hist.iter().map(|o| o.show()).collect::<Vec<_>>(),
        });
        if let Some(op) = op {
            v["call"] = op.to_json();
            v["call_text"] = json!(op.show());
        }
        if let Value::Object(m) = extra {
            for (k, x) in m {
                v[k] = x;
            }
        }
        v
    }

    /// Where does top-level path p exist in the layers? e.g. "U", "L", "UL", "-"
    fn layer_class(&self, b: &Built, raws: &[Snap], p: &str) -> String {
        if !self.cfg.has_overlay() {
            return String::new();
        }
        let mut s = String::new();
        for (base, raw) in b.bases.iter().zip(raws.iter()) {
            let full = format!("{}{}", base.prefix, p);
            if raw
                .entries
                .get(&full)
                .map(|o| matches!(o.exists, Ok(true)))
                .unwrap_or(false)
            {
                s.push(if base.lower { 'L' } else { 'U' });
            }
        }
        if s.is_empty() {
            s.push('-');
        }
        format!("@{}", s)
    }

    /// Runs all monitors on one step; returns violations as (signature tail, summary, extra).
    #[allow(clippy::too_many_arguments)]
    pub fn check_step(
        &self,
        b: &Built,
        op: &Op,
        out: &Outcome,
        log: &[LogEntry],
        before: &Snap,
        before_raw: &[Snap],
        after: &Snap,
        after_raw: &[Snap],
        model: Option<&Model>,
        lower_deep_before: &[Vec<String>],
    ) -> (Vec<(String, String, Value)>, Option<Model>, bool) {
        let mut vio: Vec<(String, String, Value)> = vec![];
        let cfgl = self.cfg.label();
        let tcl = format!(
            "{}{}",
            tclass(before, op.path()),
            self.layer_class(b, before_raw, op.path())
        );
        let dcl = op
            .dest()
            .map(|q| {
                format!(
                    "->{}{}",
                    tclass(before, q),
                    self.layer_class(b, before_raw, q)
                )
            })
            .unwrap_or_default();
        let head = format!("{}|{}|{}{}", cfgl, op.name(), tcl, dcl);
        let mut next_model: Option<Model> = model.cloned();
        let mut diverged = false;

        if b.ctl.runaway.load(std::sync::atomic::Ordering::SeqCst) {
            vio.push((
                format!("{}|runaway", head),
                format!(
                    "{} on {} made more than {} calls into the filesystems (does not terminate)",
                    op.show(),
                    cfgl,
                    CALL_HORIZON
                ),
                json!({"observed": out.short()}),
            ));
            diverged = true;
        }
        if self.mon.panics {
            if let Outcome::Panic(m) = out {
                vio.push((
                    format!("{}|panic", head),
                    format!("{} panicked: {}", op.show(), m),
                    json!({"panic": m}),
                ));
            }
            if let Some(m) = &after.panic {
                vio.push((
                    format!("{}|observer-panic", head),
                    format!("an observer panicked after {}: {}", op.show(), m),
                    json!({"panic": m}),
                ));
            }
            for (r, base) in after_raw.iter().zip(b.bases.iter()) {
                if let Some(m) = &r.panic {
                    vio.push((
                        format!("{}|observer-panic@{}", head, base.label),
                        format!(
                            "an observer on {} panicked after {}: {}",
                            base.label,
                            op.show(),
                            m
                        ),
                        json!({"panic": m}),
                    ));
                }
            }
        }

        if self.mon.model && !op.is_observer() && !op.is_setter() {
            let masked;
            let after = if self.cfg.has_overlay() {
                masked = after.without_markers();
                &masked
            } else {
                after
            };
            let m = model.expect("model monitor needs a model");
            let (exp, m2) = m.step(op);
            let mut bad: Option<(String, String)> = None;
            match (&exp, out) {
                (_, Outcome::Panic(pm)) => {
                    bad = Some(("got=Panic".into(), format!("panicked: {}", pm)))
                }
                (Expect::Ok(ret), Outcome::Ok(v)) => {
                    if let Some(n) = ret {
                        if *v != Val::Count(*n) {
                            bad = Some((
                                "got=Ok/wrong-return".into(),
                                format!("returned {:?}, the model says {}", v, n),
                            ));
                        }
                    }
                    if bad.is_none() {
                        let d = diff_model(after, &m2, &self.probes);
                        if !d.is_empty() {
                            bad = Some((
                                "got=Ok/effect-differs".into(),
                                format!(
                                    "succeeded but the tree differs from the model: {}",
                                    d.join("; ")
                                ),
                            ));
                        }
                    }
                    next_model = Some(m2);
                }
                (Expect::Ok(_), Outcome::Err(e)) => {
                    bad = Some((
                        format!("exp=Ok|got=Err({})", e.kind.name()),
                        format!("failed with {} although its precondition holds", e.display),
                    ));
                }
                (Expect::Err { .. }, Outcome::Ok(_)) => {
                    bad = Some((
                        "exp=Err|got=Ok".into(),
                        "succeeded although its documented precondition does not hold".to_string(),
                    ));
                }
                (Expect::Err { unchanged, kinds }, Outcome::Err(e)) => {
                    if !kinds.is_empty() && !kinds.contains(&e.kind) {
                        bad = Some((
                            format!(
                                "exp=Err({})|got=Err({})",
                                kinds.iter().map(|k| k.name()).collect::<Vec<_>>().join("/"),
                                e.kind.name()
                            ),
                            format!(
                                "failed with kind {} ({}), required kind {:?}",
                                e.kind.name(),
                                e.display,
                                kinds
                            ),
                        ));
                    } else if *unchanged {
                        let d = diff_model(after, m, &self.probes);
                        if !d.is_empty() {
                            bad = Some((
                                "got=Err/tree-changed".into(),
                                format!("failed but changed the tree: {}", d.join("; ")),
                            ));
                        }
                    } else {
                        // failure effects not specified: resynchronise on the observed tree
                        let m3 = after.to_model();
                        if m3.well_formed() && diff_model(after, &m3, &self.probes).is_empty() {
                            next_model = Some(m3);
                        } else {
                            bad = Some((
                                "got=Err/tree-malformed".into(),
                                "failed and left a tree that is not an abstract tree any more"
                                    .to_string(),
                            ));
                        }
                    }
                }
                _ => {}
            }
            if let Some((tail, what)) = bad {
                diverged = true;
                if !self.mon.model_only_kinds || tail.starts_with("exp=Err(") {
                    vio.push((
                    format!("{}|{}", head, tail),
                    format!("{} on {} ({}): {}", op.show(), cfgl, tcl, what),
                    json!({"expected": format!("{:?}", exp), "observed": out.short(), "after": after.dump()}),
                ));
                }
            }
        }

        if self.mon.wellformed {
            let mut check = |which: &str, bsnap: &Snap, asnap: &Snap, prefix: &str| {
                // blame the call that creates the defect: what already held before is not re-reported
                let old: Vec<(String, String)> = wellformed_violations(bsnap, bsnap, prefix);
                for (kind, what) in wellformed_violations(bsnap, asnap, prefix) {
                    if old.contains(&(kind.clone(), what.clone())) {
                        continue;
                    }
                    vio.push((
                        format!("{}|{}@{}", head, kind, which),
                        format!("after {} on {}: {} [{}]", op.show(), cfgl, what, which),
                        json!({"observed": out.short(), "after": asnap.dump()}),
                    ));
                }
            };
            check("top", before, after, "");
            if !self.is_plain() {
                for (i, base) in b.bases.iter().enumerate() {
                    check(&base.label, &before_raw[i], &after_raw[i], "");
                }
            }
        }

        if self.mon.consistency {
            let old = consistency_violations_static(before);
            for (kind, what) in consistency_violations(&b.root, after) {
                if old.contains(&(kind.clone(), what.clone())) {
                    continue;
                }
                vio.push((
                    format!("{}|{}", head, kind),
                    format!("after {} on {}: {}", op.show(), cfgl, what),
                    json!({"observed": out.short(), "after": after.dump()}),
                ));
            }
        }

        if self.mon.errpaths {
            if let Outcome::Err(e) = out {
                let recursive = matches!(op, Op::RemoveDirAll(_) | Op::CopyDir(..) | Op::MoveDir(..) | Op::Walk(_));
                for (kind, what) in errpath_violations(e, op.path(), op.dest(), recursive) {
                    vio.push((
                        format!("{}|{}|got=Err({})", head, kind, e.kind.name()),
                        format!("{} on {}: {}", op.show(), cfgl, what),
                        json!({"observed": out.short()}),
                    ));
                }
            }
            if let Outcome::Ok(Val::Walk(items)) = out {
                for e in items.iter().filter_map(|i| i.as_ref().err()) {
                    for (kind, what) in errpath_violations(e, op.path(), None, true) {
                        vio.push((
                            format!("{}|walk-item-{}", head, kind),
                            format!("{} on {}: {}", op.show(), cfgl, what),
                            json!({"observed": out.short()}),
                        ));
                    }
                }
            }
            for (kind, what, p) in observer_err_violations(after) {
                vio.push((
                    format!("{}|observer|{}|{}", cfgl, kind, tclass(after, &p)),
                    format!("after {} on {}: {}", op.show(), cfgl, what),
                    json!({"after": after.dump()}),
                ));
            }
        }

        if self.mon.lower_immutable {
            for e in log {
                let lower_node = entry_is_lower(&self.cfg, e);
                if is_mutating(e.method) && lower_node {
                    vio.push((
                        format!("{}|mutating-call-on-lower-layer|{}", head, e.method),
                        format!(
                            "{} on {} issued {}({:?}) to lower layer node {}",
                            op.show(),
                            cfgl,
                            e.method,
                            e.path,
                            e.node
                        ),
                        json!({"log": format!("{:?}", log)}),
                    ));
                }
                if op.is_observer() && is_mutating(e.method) {
                    vio.push((
                        format!("{}|observer-issued-mutating-call|{}", head, e.method),
                        format!(
                            "observer {} on {} issued {}({:?}) to node {}",
                            op.show(),
                            cfgl,
                            e.method,
                            e.path,
                            e.node
                        ),
                        json!({"log": format!("{:?}", log)}),
                    ));
                }
            }
            let deep_after = lower_deep(b);
            for (i, (x, y)) in lower_deep_before.iter().zip(deep_after.iter()).enumerate() {
                if x != y {
                    vio.push((
                        format!("{}|lower-layer-changed", head),
                        format!(
                            "{} on {} changed lower layer #{}: before {:?} after {:?}",
                            op.show(),
                            cfgl,
                            i,
                            x,
                            y
                        ),
                        json!({"before": x, "after": y}),
                    ));
                }
            }
        }

        if self.mon.markers_hidden {
            let old = marker_violations(before);
            for what in marker_violations(after) {
                if old.contains(&what) {
                    continue;
                }
                vio.push((
                    format!("{}|marker-visible|{}", cfgl, what.0),
                    format!("after {} on {}: {}", op.show(), cfgl, what.1),
                    json!({"after": after.dump()}),
                ));
            }
        }
        (vio, next_model, diverged)
    }
}

impl TreeSpace {
    /// C20: re-runs `op` from the same state once per fault position k = 1..n (n = number of calls
    /// the fault-free run makes into wrapped filesystems) and, with `faults >= 2`, per pair k1 < k2.
    fn fault_sweep(
        &self,
        st: &State<TAux>,
        op: &Op,
        out0: &Outcome,
        n: usize,
        after0: &Snap,
        e: &mut Expansion<TAux>,
    ) {
        let mut plans: Vec<[usize; 2]> = (1..=n).map(|k| [k, 0]).collect();
        if self.mon.faults >= 2 && !op.is_observer() && !op.is_primitive() {
            for k1 in 1..=n {
                for k2 in (k1 + 1)..=n {
                    plans.push([k1, k2]);
                }
            }
        }
        for plan in plans {
            let b = self.rebuild(st.init, &st.hist);
            b.ctl.arm(plan);
            let out = apply_sess(&b, op);
            let log = b.ctl.disarm();
            let after = snapshot(&b.root, &self.probes);
            e.transitions += 1;
            let reached = log.iter().filter(|l| l.injected).count();
            *e.counters
                .entry(format!(
                    "faults:{}",
                    if reached > 0 {
                        "reached"
                    } else {
                        "not-reached"
                    }
                ))
                .or_insert(0) += 1;
            if reached == 0 {
                continue; // an earlier fault changed the control flow (only possible for the second of a pair)
            }
            let site = log
                .iter()
                .find(|l| l.injected)
                .map(|l| {
                    format!(
                        "{}@{}",
                        l.method,
                        if l.node == "0" {
                            "top"
                        } else if entry_is_lower(&self.cfg, l) {
                            "lower"
                        } else {
                            "underlying"
                        }
                    )
                })
                .unwrap_or_default();
            let mut bad: Option<(String, String)> = None;
            match &out {
                Outcome::Panic(m) => bad = Some(("panic".into(), format!("panicked: {}", m))),
                Outcome::Err(_) => {
                    *e.counters
                        .entry("faults:turned-into-Err".into())
                        .or_insert(0) += 1;
                }
                Outcome::Ok(Val::Walk(items)) if items.iter().any(|i| i.is_err()) => {
                    *e.counters
                        .entry("faults:turned-into-Err-item".into())
                        .or_insert(0) += 1;
                }
                Outcome::Ok(v) => {
                    // success is only acceptable with the complete fault-free effect and answer
                    let same_val = match out0 {
                        Outcome::Ok(v0) => v0 == v,
                        _ => false,
                    };
                    if !same_val {
                        bad = Some((
                            "ok-with-wrong-answer".into(),
                            format!(
                                "returned {:?} although the fault-free run returns {}",
                                v,
                                out0.short()
                            ),
                        ));
                    } else if !after.same_tree(after0) {
                        bad = Some(("ok-with-partial-effect".into(), format!("returned Ok but the tree differs from the fault-free result: {:?} vs {:?}", after.dump(), after0.dump())));
                    } else {
                        *e.counters
                            .entry("faults:completed-by-another-route".into())
                            .or_insert(0) += 1;
                    }
                }
            }
            for l in &log {
                if is_mutating(l.method) && entry_is_lower(&self.cfg, l) {
                    bad = Some((
                        "mutating-call-on-lower-layer".into(),
                        format!(
                            "issued {}({:?}) to lower layer node {}",
                            l.method, l.path, l.node
                        ),
                    ));
                }
            }
            if let Some((tail, what)) = bad {
                let sig = format!(
                    "{}|{}|fault-in-{}|{}",
                    self.cfg.label(),
                    op.name(),
                    site,
                    tail
                );
                *e.vio_counts.entry(sig.clone()).or_insert(0) += 1;
                if self.want_full(&sig) {
                    e.violations.push(Violation {
                        property: self.property.clone(),
                        signature: sig,
                        summary: format!("{} on {} with underlying call #{:?} failing ({}): {}", op.show(), self.cfg.label(), plan, site, what),
                        replay: self.replay_json(st.init, &st.hist, Some(op), json!({"fault_positions": plan.to_vec(), "calls": log.iter().map(|l| format!("{}{} {}({:?})", if l.injected { "FAIL " } else { "" }, l.node, l.method, l.path)).collect::<Vec<_>>(), "fault_free": out0.short(), "observed": out.short()})),
                    });
                }
            }
        }
    }
}

/// Is the node id inside a non-first layer of some overlay of `cfg`?
/// Description of the write handle a live system keeps open (empty: none); part of the state key.
pub fn held_desc(b: &Built) -> Vec<u8> {
    b.held
        .lock()
        .unwrap()
        .as_ref()
        .map(|(_, d)| d.clone())
        .unwrap_or_default()
}

/// `apply` plus the session steps, whose handle lives with the system.
pub fn apply_sess(b: &Built, op: &Op) -> Outcome {
    use std::io::Write;
    match op {
        Op::OpenWrite(p, append) => {
            let r = guard(|| {
                let path = match at(&b.root, p) {
                    Ok(x) => x,
                    Err(e) => return Err(e),
                };
                let seed = if *append {
                    PathApi::read_all(&path).unwrap_or_default()
                } else {
                    vec![]
                };
                let h = if *append {
                    path.append_file()
                } else {
                    path.create_file()
                };
                match h {
                    Ok(h) => {
                        let mut d = format!("held|{}|{}|", p, append).into_bytes();
                        d.extend_from_slice(&seed);
                        *b.held.lock().unwrap() = Some((Held(h), d));
                        Ok(())
                    }
                    Err(e) => Err(einfo(&e)),
                }
            });
            match r {
                Ok(Ok(())) => Outcome::Ok(Val::Unit),
                Ok(Err(e)) => Outcome::Err(e),
                Err(m) => Outcome::Panic(m),
            }
        }
        Op::FlushWrite => {
            let mut g = b.held.lock().unwrap();
            match g.as_mut() {
                None => Outcome::Ok(Val::Unit),
                Some((h, d)) => {
                    d.extend_from_slice(b"|flushed");
                    match guard(|| h.0.write_all(b"h").and_then(|_| h.0.flush())) {
                        Ok(Ok(())) => Outcome::Ok(Val::Unit),
                        Ok(Err(e)) => Outcome::Err(io_einfo(&e)),
                        Err(m) => Outcome::Panic(m),
                    }
                }
            }
        }
        Op::CloseWrite => {
            let taken = b.held.lock().unwrap().take();
            match taken {
                None => Outcome::Ok(Val::Unit),
                Some((Held(mut h), _)) => match guard(move || {
                    let r = h.write_all(b"h");
                    drop(h);
                    r
                }) {
                    Ok(Ok(())) => Outcome::Ok(Val::Unit),
                    Ok(Err(e)) => Outcome::Err(io_einfo(&e)),
                    Err(m) => Outcome::Panic(m),
                },
            }
        }
        _ => apply(&b.root, op),
    }
}

/// Is a recorded call (node id, path, destination) a call into a lower layer of some overlay?
/// For overlays whose layers share one filesystem the path decides, otherwise the node does.
pub fn entry_is_lower(cfg: &Cfg, e: &LogEntry) -> bool {
    let idx: Vec<usize> = e
        .node
        .split('.')
        .skip(1)
        .filter_map(|s| s.parse().ok())
        .collect();
    let mut cur = cfg;
    for i in idx {
        match cur {
            Cfg::Ov(layers) => {
                if i > 0 {
                    return true;
                }
                cur = &layers[i];
            }
            Cfg::OvShared(_, dirs) => {
                // the single shared filesystem: lower iff the call names something below a lower directory
                let below_lower = |p: &str| dirs[1..].iter().any(|d| is_within(p, d));
                let dest_lower = e.dest.as_deref().map(below_lower).unwrap_or(false);
                return match e.method {
                    // copying out of a lower directory does not touch it
                    "copy_file" => dest_lower,
                    _ => below_lower(&e.path) || dest_lower,
                };
            }
            Cfg::Alt(inner, _) | Cfg::Sub(inner, _, _) => cur = inner,
            _ => return false,
        }
    }
    false
}

pub fn node_is_lower(cfg: &Cfg, node: &str) -> bool {
    entry_is_lower(
        cfg,
        &LogEntry {
            node: node.to_string(),
            method: "",
            path: String::new(),
            dest: None,
            injected: false,
        },
    )
}

/// Deep snapshot (type, bytes, created, modified) of every lower base, via raw handles.
pub fn lower_deep(b: &Built) -> Vec<Vec<String>> {
    b.bases
        .iter()
        .filter(|base| base.lower)
        .map(|base| {
            let mut v = vec![];
            // (only what lies below the layer's own directory: several layers may share one filesystem)
            let start = if base.prefix.is_empty() {
                base.raw.clone()
            } else {
                base.raw.join(&base.prefix[1..]).expect("HARNESS: base prefix")
            };
            let mut items: Vec<VfsPathBox> = vec![start.clone()];
            if let Ok(w) = start.walk() {
                items.extend(w.into_iter().flatten());
            }
            for p in items {
                let m = PathApi::metadata(&p);
                // (reading only touches `accessed`, which C08 deliberately leaves out)
                let c = if matches!(
                    m,
                    Ok(Meta {
                        ftype: FType::File,
                        ..
                    })
                ) {
                    p.read_all().ok()
                } else {
                    None
                };
                v.push(format!(
                    "{} {:?} {:?}",
                    p.as_string(),
                    m.map(|m| (m.ftype, m.len, m.created, m.modified))
                        .map_err(|e| e.kind),
                    c
                ));
            }
            v.sort();
            v
        })
        .collect()
}

type VfsPathBox = vfs::VfsPath;

pub fn tclass(s: &Snap, p: &str) -> String {
    if p.is_empty() {
        return "root".into();
    }
    let meta = |q: &str| s.entries.get(q).and_then(|o| o.meta.clone().ok());
    match meta(p) {
        Some((FType::File, _)) => "file".into(),
        Some((FType::Dir, _)) => {
            let empty = s
                .entries
                .get(p)
                .map(|o| o.list.as_ref().map(|l| l.is_empty()).unwrap_or(true))
                .unwrap_or(true);
            if empty {
                "empty-dir".into()
            } else {
                "nonempty-dir".into()
            }
        }
        None => match meta(&parent_of(p)) {
            Some((FType::Dir, _)) => "absent".into(),
            Some((FType::File, _)) => "absent-under-file".into(),
            None => "absent-no-parent".into(),
        },
    }
}

/// C03 invariant on one snapshot (and the before/after pair).
pub fn wellformed_violations(before: &Snap, after: &Snap, _prefix: &str) -> Vec<(String, String)> {
    let mut v = vec![];
    if after.panic.is_some() {
        return v;
    }
    match after.entries.get("") {
        Some(o) => {
            if o.exists != Ok(true) || o.is_dir != Ok(true) {
                v.push((
                    "root-not-a-directory".to_string(),
                    format!(
                        "the root is not an existing directory (exists={:?}, is_dir={:?})",
                        o.exists.as_ref().map_err(|e| e.kind),
                        o.is_dir.as_ref().map_err(|e| e.kind)
                    ),
                ));
                return v;
            }
        }
        None => v.push((
            "root-not-observed".into(),
            "root missing from snapshot".into(),
        )),
    }
    let walk: BTreeSet<String> = after.walk_set().unwrap_or_default().into_iter().collect();
    for p in after.existing() {
        if p.is_empty() {
            continue;
        }
        let par = parent_of(&p);
        let pd = after
            .entries
            .get(&par)
            .map(|o| o.is_dir == Ok(true))
            .unwrap_or(false);
        if !pd {
            v.push((
                "orphan".to_string(),
                format!(
                    "{:?} exists but its parent {:?} is not an existing directory",
                    p, par
                ),
            ));
        } else if !walk.contains(&p) {
            v.push((
                "unreachable".to_string(),
                format!("{:?} exists but walk_dir(root) does not reach it", p),
            ));
        }
    }
    for (p, o) in &before.entries {
        if let (Ok((FType::Dir, _)), Ok(l)) = (&o.meta, &o.list) {
            if !l.is_empty() {
                if let Some(a) = after.entries.get(p) {
                    if matches!(a.meta, Ok((FType::File, _))) {
                        v.push((
                            "nonempty-dir-became-file".to_string(),
                            format!("non-empty directory {:?} became a file", p),
                        ));
                    }
                }
            }
        }
    }
    v
}

/// C05 invariant on one snapshot.
pub fn consistency_violations<P: PathApi>(root: &P, s: &Snap) -> Vec<(String, String)> {
    let mut v = consistency_violations_static(s);
    if s.panic.is_some() {
        return v;
    }
    v.extend(walk_violations(Some(root), s));
    v
}

/// The part of the C05 invariant that needs nothing but the snapshot (root walk included).
pub fn consistency_violations_static(s: &Snap) -> Vec<(String, String)> {
    let mut v = vec![];
    if s.panic.is_some() {
        return v;
    }
    for (p, o) in &s.entries {
        let ex = match &o.exists {
            Ok(b) => *b,
            Err(_) => continue,
        };
        if !p.is_empty() {
            let par = parent_of(p);
            let listed = s
                .entries
                .get(&par)
                .and_then(|po| po.list.as_ref().ok())
                .map(|l| l.iter().filter(|c| *c == p).count());
            match (ex, listed) {
                (true, Some(1)) | (false, Some(0)) | (false, None) => {}
                (true, Some(0)) | (true, None) => v.push((
                    "exists-but-not-listed".into(),
                    format!("{:?} exists but its parent does not list it", p),
                )),
                (false, Some(_)) => v.push((
                    "listed-but-not-exists".into(),
                    format!("{:?} is listed by its parent but exists() is false", p),
                )),
                (true, Some(n)) => v.push((
                    "listed-more-than-once".into(),
                    format!("{:?} is listed {} times by its parent", p, n),
                )),
            }
        }
        let is_dir = o.is_dir == Ok(true);
        let is_file = o.is_file == Ok(true);
        if is_dir != o.list.is_ok() {
            v.push((
                "is_dir-vs-read_dir".into(),
                format!(
                    "{:?}: is_dir()={:?} but read_dir() is {}",
                    p,
                    o.is_dir.as_ref().map_err(|e| e.kind),
                    if o.list.is_ok() { "Ok" } else { "Err" }
                ),
            ));
        }
        if is_file != o.content.is_ok() {
            v.push((
                "is_file-vs-read".into(),
                format!(
                    "{:?}: is_file()={:?} but open_file+read is {}",
                    p,
                    o.is_file.as_ref().map_err(|e| e.kind),
                    if o.content.is_ok() { "Ok" } else { "Err" }
                ),
            ));
        }
        if o.meta.is_ok() != ex {
            v.push((
                "metadata-vs-exists".into(),
                format!(
                    "{:?}: exists()={} but metadata() is {}",
                    p,
                    ex,
                    if o.meta.is_ok() { "Ok" } else { "Err" }
                ),
            ));
        }
        if let Ok((t, len)) = &o.meta {
            if (*t == FType::Dir) != is_dir || (*t == FType::File) != is_file {
                v.push((
                    "metadata-type-vs-is_x".into(),
                    format!(
                        "{:?}: metadata type {:?} but is_file={} is_dir={}",
                        p, t, is_file, is_dir
                    ),
                ));
            }
            if *t == FType::Dir && *len != 0 {
                v.push((
                    "dir-len-nonzero".into(),
                    format!("{:?}: directory reports len {}", p, len),
                ));
            }
            if let (FType::File, Ok(c)) = (t, &o.content) {
                if c.len() as u64 != *len {
                    v.push((
                        "len-vs-content".into(),
                        format!("{:?}: metadata len {} but {} bytes read", p, len, c.len()),
                    ));
                }
            }
        }
        if !o.exists.is_ok() || !o.is_file.is_ok() || !o.is_dir.is_ok() {
            v.push((
                "observer-error".into(),
                format!("{:?}: exists/is_file/is_dir returned an error", p),
            ));
        }
        if let Ok(l) = &o.list {
            for c in l {
                let name = c.get(p.len()..).unwrap_or("");
                if !c.starts_with(p.as_str())
                    || !name.starts_with('/')
                    || name.len() < 2
                    || name[1..].contains('/')
                {
                    v.push((
                        "listed-name-not-a-bare-child".into(),
                        format!(
                            "read_dir({:?}) returned {:?}, which is not a bare child name",
                            p, c
                        ),
                    ));
                }
            }
        }
    }
    v.extend(walk_violations(None::<&vfs::VfsPath>, s));
    v
}

/// walk_dir from the root (snapshot) or, with a live root, from every other directory.
fn walk_violations<P: PathApi>(root: Option<&P>, s: &Snap) -> Vec<(String, String)> {
    let mut v = vec![];
    for (p, o) in &s.entries {
        if o.is_dir != Ok(true) {
            continue;
        }
        if p.is_empty() != root.is_none() {
            continue;
        }
        let items: Vec<String> = if p.is_empty() {
            match &s.walk {
                Ok(items) => items
                    .iter()
                    .map(|i| i.clone().unwrap_or_else(|_| "<ERR>".into()))
                    .collect(),
                Err(_) => {
                    v.push(("walk-failed".into(), "walk_dir(root) failed".into()));
                    continue;
                }
            }
        } else {
            match at(root.unwrap(), p).and_then(|x| x.walk()) {
                Ok(items) => items
                    .into_iter()
                    .map(|i| i.map(|c| c.as_string()).unwrap_or_else(|_| "<ERR>".into()))
                    .collect(),
                Err(_) => {
                    v.push((
                        "walk-failed".into(),
                        format!("walk_dir({:?}) failed on a directory", p),
                    ));
                    continue;
                }
            }
        };
        let want: BTreeSet<String> = s
            .entries
            .iter()
            .filter(|(q, qo)| {
                qo.exists == Ok(true) && q.len() > p.len() && is_within(q, p) && *q != p
            })
            .map(|(q, _)| q.clone())
            .collect();
        let mut seen: BTreeMap<String, usize> = BTreeMap::new();
        for (i, it) in items.iter().enumerate() {
            if seen.insert(it.clone(), i).is_some() {
                v.push((
                    "walk-duplicate".into(),
                    format!("walk_dir({:?}) yields {:?} more than once", p, it),
                ));
            }
        }
        for it in &items {
            if it == "<ERR>" {
                v.push((
                    "walk-error-item".into(),
                    format!(
                        "walk_dir({:?}) yields an error item in a quiescent state",
                        p
                    ),
                ));
            } else if !want.contains(it) {
                v.push((
                    "walk-extra".into(),
                    format!(
                        "walk_dir({:?}) yields {:?}, which is not an existing descendant",
                        p, it
                    ),
                ));
            }
        }
        for w in &want {
            match seen.get(w) {
                None => v.push((
                    "walk-missing".into(),
                    format!("walk_dir({:?}) does not yield descendant {:?}", p, w),
                )),
                Some(i) => {
                    let par = parent_of(w);
                    if par != *p {
                        if let Some(j) = seen.get(&par) {
                            if j > i {
                                v.push((
                                    "walk-child-before-parent".into(),
                                    format!(
                                        "walk_dir({:?}) yields {:?} before its directory {:?}",
                                        p, w, par
                                    ),
                                ));
                            }
                        }
                    }
                }
            }
        }
    }
    v
}

/// C12: the error's path must be the call's path, its destination, or an ancestor /
/// descendant of one of them in the caller's namespace; no placeholder.
/// `recursive`: the operation walks below its path (walk_dir, remove_dir_all, copy_dir, move_dir), so
/// the entry at which it failed may be a descendant; any other call may only name its own path,
/// its destination or an ancestor of them (a lookup that failed on the way down).
pub fn errpath_violations(e: &EInfo, p: &str, q: Option<&str>, recursive: bool) -> Vec<(String, String)> {
    let mut v = vec![];
    const PLACEHOLDER: &str = "PATH NOT FILLED BY VFS LAYER";
    if e.display.contains(PLACEHOLDER)
        || e.path
            .as_deref()
            .map(|x| x.contains(PLACEHOLDER))
            .unwrap_or(false)
    {
        v.push((
            "placeholder-path".into(),
            format!("error carries the unfilled placeholder path: {}", e.display),
        ));
        return v;
    }
    if let Some(ep) = &e.path {
        let related = |a: &str| is_within(a, ep) || (recursive && is_within(ep, a));
        let ok = related(p) || q.map(related).unwrap_or(false);
        if !ok {
            v.push((
                "foreign-path".into(),
                format!("error path {:?} is neither the call's path {:?}{} nor an ancestor/descendant of it: {}", ep, p, q.map(|q| format!(" / destination {:?}", q)).unwrap_or_default(), e.display),
            ));
        }
    }
    v
}

/// C12 on observers: errors of metadata / read_dir / open_file on a path that is missing from
/// an existing directory must be NotFound and name the path.
pub fn observer_err_violations(s: &Snap) -> Vec<(String, String, String)> {
    let mut v = vec![];
    for (p, o) in &s.entries {
        if p.is_empty() {
            continue;
        }
        let parent_is_dir = s
            .entries
            .get(&parent_of(p))
            .map(|x| x.is_dir == Ok(true))
            .unwrap_or(false);
        let missing = o.exists == Ok(false) && parent_is_dir;
        let mut errs: Vec<(&str, &EInfo)> = vec![];
        if let Err(e) = &o.meta {
            errs.push(("metadata", e));
        }
        if let Err(e) = &o.list {
            errs.push(("read_dir", e));
        }
        if let Err(e) = &o.content {
            errs.push(("open_file", e));
        }
        if let Err(e) = &o.exists {
            errs.push(("exists", e));
        }
        for (m, e) in errs {
            if e.path.is_none() {
                continue; // io::Error out of a read handle, not a path operation's error
            }
            for (kind, what) in errpath_violations(e, p, None, false) {
                v.push((
                    format!("{}-{}", m, kind),
                    format!("{}({:?}): {}", m, p, what),
                    p.clone(),
                ));
            }
            if missing && e.kind != Kind::NotFound {
                v.push((
                    format!("{}-missing-entry-not-NotFound({})", m, e.kind.name()),
                    format!("{}({:?}) on an entry missing from an existing directory failed with {} instead of not-found", m, p, e.kind.name()),
                    p.clone(),
                ));
            }
        }
    }
    v
}

/// C10: overlay bookkeeping must not be visible in the overlay's own namespace.
pub fn marker_violations(s: &Snap) -> Vec<(String, String)> {
    let mut v = vec![];
    let is_marker = |p: &str| p.split('/').any(|c| c == ".whiteout" || c.ends_with("_wo"));
    let loc = |p: &str| {
        if in_marker_dir(p) {
            "in-root-.whiteout-dir"
        } else {
            "elsewhere"
        }
    };
    for (p, o) in &s.entries {
        if is_marker(p) && (o.exists == Ok(true) || o.meta.is_ok()) {
            v.push((
                format!("exists|{}", loc(p)),
                format!(
                    "bookkeeping entry {:?} exists in the overlay's namespace",
                    p
                ),
            ));
        }
        if let Ok(l) = &o.list {
            for c in l {
                if is_marker(c) {
                    v.push((
                        format!("listed|{}", loc(c)),
                        format!("read_dir({:?}) lists bookkeeping entry {:?}", p, c),
                    ));
                }
            }
        }
    }
    if let Ok(items) = &s.walk {
        for i in items.iter().flatten() {
            if is_marker(i) {
                v.push((
                    format!("walked|{}", loc(i)),
                    format!("walk_dir yields bookkeeping entry {:?}", i),
                ));
            }
        }
    }
    v
}

impl Space for TreeSpace {
    type Aux = TAux;

    fn label(&self) -> String {
        format!(
            "{} {} {:?} order={:?}{}",
            self.cfg.label(),
            self.alphabet.universe.name,
            self.domain,
            self.order,
            if self.alphabet.residue { " +states after a refused call" } else { "" }
        )
    }

    fn initial(&self) -> Vec<(TAux, u128, Vec<Violation>)> {
        let mut v = vec![];
        for (i, spec) in self.inits.iter().enumerate() {
            let b = self.rebuild(i, &[]);
            let obs = snapshot(&b.root, &self.probes);
            let raws = if self.is_plain() {
                vec![]
            } else {
                self.raw_snaps(&b)
            };
            let key = self.key_of(&obs, &raws, &[]);
            let mut vio = vec![];
            let model = if self.mon.model {
                let m = spec.model.clone().unwrap_or_else(|| obs.to_model());
                let d = diff_model(&obs, &m, &self.probes);
                if !d.is_empty() {
                    vio.push(Violation {
                        property: self.property.clone(),
                        signature: format!(
                            "{}|initial-state|view-differs-from-union",
                            self.cfg.label()
                        ),
                        summary: format!(
                            "initial view of {} ({}) differs from the union of its layers: {}",
                            self.cfg.label(),
                            spec.label,
                            d.join("; ")
                        ),
                        replay: self.replay_json(i, &[], None, json!({"after": obs.dump()})),
                    });
                }
                Some(m)
            } else {
                None
            };
            // state invariants on the initial state
            let dummy = Op::Exists(String::new());
            let mon0 = Monitors {
                model: false,
                lower_immutable: false,
                errpaths: false,
                ..self.mon.clone()
            };
            let tmp = TreeSpace {
                property: self.property.clone(),
                cfg: self.cfg.clone(),
                order: self.order,
                alphabet: self.alphabet.clone(),
                domain: self.domain.clone(),
                inits: vec![],
                mon: mon0,
                ops: vec![],
                probes: self.probes.clone(),
                sig_counts: Default::default(),
            };
            let raws_full = self.raw_snaps(&b);
            let (vs, _, _) = tmp.check_step(
                &b,
                &dummy,
                &Outcome::Ok(Val::Unit),
                &[],
                &obs,
                &raws_full,
                &obs,
                &raws_full,
                None,
                &[],
            );
            for (sig, summary, extra) in vs {
                vio.push(Violation {
                    property: self.property.clone(),
                    signature: format!("initial|{}", sig),
                    summary: format!("initial state {}: {}", spec.label, summary),
                    replay: self.replay_json(i, &[], None, extra),
                });
            }
            v.push((TAux { model, tag: 0 }, key, vio));
        }
        v
    }

    fn expand(&self, st: &State<TAux>) -> Expansion<TAux> {
        let mut e = Expansion::<TAux>::default();
        let mut sys = Some(self.rebuild(st.init, &st.hist));
        let b0 = sys.as_ref().unwrap();
        let before = snapshot(&b0.root, &self.probes);
        let need_raw = !self.is_plain();
        let before_raw = if need_raw { self.raw_snaps(b0) } else { vec![] };
        let held0 = held_desc(b0);
        let tag = st.aux.tag;
        let k0 = self.key_of(&before, &before_raw, &held0) ^ (tag as u128);
        if k0 != st.key {
            // (as in pair.rs: if replaying with the observers called around the last call, as on the
            // way the state was first reached, reproduces the recorded key, the filesystem is
            // deterministic but what it reports depends on earlier observer calls: a finding about
            // the code under test, not a harness defect)
            if let Some((last, init_hist)) = st.hist.split_last() {
                for look_first in [false, true] {
                    let b = self.rebuild(st.init, init_hist);
                    if look_first {
                        let _ = snapshot(&b.root, &self.probes);
                        if need_raw {
                            let _ = self.raw_snaps(&b);
                        }
                    }
                    let _ = apply_sess(&b, last);
                    let obs = snapshot(&b.root, &self.probes);
                    let raws = if need_raw { self.raw_snaps(&b) } else { vec![] };
                    if self.key_of(&obs, &raws, &held_desc(&b)) ^ (tag as u128) == st.key {
                        let sig = format!(
                            "{}|{}|what-is-reported-depends-on-earlier-observer-calls",
                            self.cfg.label(),
                            last.name()
                        );
                        *e.vio_counts.entry(sig.clone()).or_insert(0) += 1;
                        e.violations.push(Violation {
                            property: self.property.clone(),
                            signature: sig,
                            summary: format!("history {:?}: the state seen after it depends on whether and when the observers (exists, metadata, read_dir, open+read, walk) were called around its last call", st.hist.iter().map(|o| o.show()).collect::<Vec<_>>()),
                            replay: self.replay_json(st.init, &st.hist, None, json!({"note": "replay the history once back to back and once with the observers called around the last call"})),
                        });
                        return e;
                    }
                }
            }
            eprintln!(
                "MACHINERY: nondeterministic replay on {} (history {:?})",
                self.cfg.label(),
                st.hist.iter().map(|o| o.show()).collect::<Vec<_>>()
            );
            std::process::exit(2);
        }
        let model = st.aux.model.as_ref();
        for op in &self.ops {
            if !self.op_enabled(op, &before, model) {
                continue;
            }
            // session steps: at most one handle is open, one flush per session
            match op {
                Op::OpenWrite(..) if !held0.is_empty() => continue,
                Op::CloseWrite if held0.is_empty() => continue,
                Op::FlushWrite if held0.is_empty() || held0.ends_with(b"|flushed") => continue,
                _ => {}
            }
            let b = match sys.take() {
                Some(b) => b,
                None => self.rebuild(st.init, &st.hist),
            };
            let deep_before = if self.mon.lower_immutable {
                lower_deep(&b)
            } else {
                vec![]
            };
            b.ctl.arm([0, 0]);
            let out = apply_sess(&b, op);
            let ncalls = b.ctl.calls.load(std::sync::atomic::Ordering::SeqCst);
            let log = b.ctl.disarm();
            let after = snapshot(&b.root, &self.probes);
            if self.mon.faults > 0 {
                self.fault_sweep(st, op, &out, ncalls, &after, &mut e);
            }
            let after_raw = if need_raw { self.raw_snaps(&b) } else { vec![] };
            e.transitions += 1;
            let (vs, next_model, diverged) = self.check_step(
                &b,
                op,
                &out,
                &log,
                &before,
                &before_raw,
                &after,
                &after_raw,
                model,
                &deep_before,
            );
            // a state invariant (C03, C05) broken by this transition is reported here; the broken
            // state is not expanded (what happens in it is a consequence of the reported defect)
            let diverged =
                diverged || ((self.mon.wellformed || self.mon.consistency) && !vs.is_empty());
            for (sig, summary, extra) in vs {
                *e.vio_counts.entry(sig.clone()).or_insert(0) += 1;
                if self.want_full(&sig) {
                    e.violations.push(Violation {
                        property: self.property.clone(),
                        signature: sig,
                        summary,
                        replay: self.replay_json(st.init, &st.hist, Some(op), extra),
                    });
                }
            }
            let base_key = self.key_of(&after, &after_raw, &held_desc(&b));
            let mut key = base_key ^ (tag as u128);
            let changed = key != st.key;
            let mut next_tag = tag;
            if self.alphabet.residue && tag == 0 && !changed && out.is_err() {
                let mut h = std::collections::hash_map::DefaultHasher::new();
                // (the call and the state it was refused in)
                ("refused", op.show(), st.key).hash(&mut h);
                next_tag = h.finish() | 1;
                key = base_key ^ (next_tag as u128);
                *e.counters
                    .entry("residue:states-after-a-refused-call".into())
                    .or_insert(0) += 1;
            }
            // statistics
            *e.counters
                .entry(format!("{}:{}", op.name(), out.class()))
                .or_insert(0) += 1;
            let tc = tclass(&before, op.path());
            let refused_nontrivially = out.is_err() && !tc.starts_with("absent-");
            if changed || refused_nontrivially {
                let mut h = std::collections::hash_map::DefaultHasher::new();
                (
                    tc.as_str(),
                    op.show(),
                    out.class(),
                    op.dest().map(|q| tclass(&before, q)),
                )
                    .hash(&mut h);
                e.nontrivial.push(h.finish());
            }
            if self.cfg.has_overlay() && !op.is_observer() {
                let lc = self.layer_class(&b, &before_raw, op.path());
                if lc.contains('L') {
                    *e.counters
                        .entry("nonvacuity:mutating-call-on-path-present-in-lower-layer".into())
                        .or_insert(0) += 1;
                    if out.is_ok()
                        && matches!(
                            op,
                            Op::RemoveFile(_) | Op::RemoveDir(_) | Op::RemoveDirAll(_)
                        )
                    {
                        *e.counters
                            .entry("nonvacuity:successful-removal-of-lower-layer-entry".into())
                            .or_insert(0) += 1;
                    }
                }
                if out.is_ok()
                    && matches!(
                        op,
                        Op::CreateDir(_) | Op::CreateFile(..) | Op::CreateDirAll(_)
                    )
                {
                    let wp = b.bases.iter().zip(before_raw.iter()).any(|(base, raw)| {
                        base.upper
                            && raw
                                .entries
                                .get(&format!("{}/.whiteout{}_wo", base.prefix, op.path()))
                                .map(|o| o.exists == Ok(true))
                                .unwrap_or(false)
                    });
                    if wp {
                        *e.counters
                            .entry("nonvacuity:re-creation-of-removed-lower-entry".into())
                            .or_insert(0) += 1;
                    }
                }
            }
            e.succ.push(Succ {
                op: op.clone(),
                key,
                aux: if diverged {
                    None
                } else {
                    Some(TAux { model: next_model, tag: next_tag })
                },
            });
        }
        e
    }
}
